from islamon.ref import domain as D


def main():
    assert D.check_csv("a;b\nc;d\n") is None and D.check_csv("a;b\nc\n") and D.check_csv('a;"x;y"\nc;d\n') is None
    assert D.check_xml("<a b='1'><c/></a>") is None and D.check_xml("<a></b>") and D.check_xml("<p:a/>") and D.check_xml("<a b='1' b='2'/>")
    fn = "f".ljust(100, "\x00")
    ln = "\x00" * 100
    hdr = fn + " " * 8 + "0" + ln
    ck = oct(sum(hdr.encode()))[2:].rjust(6, "0") + "\x00 "
    good = fn + ck + "0" + ln + "CONTENT"
    assert D.check_tar(good) is None, D.check_tar(good)
    assert D.check_tar(good.replace(ck, "000000\x00 ")) and D.check_tar(good[:-1])
    assert D.check_rest_docutils("Title\n=====\n\ntext\n")[0] is None
    assert D.check_rest_docutils("Titleeeee\n====\n\ntext\n")[1] == 2
    assert D.check_rest_docutils("a ref_ here\n")[0] is not None
    print("selfcheck: R7 ok")
