"""In-situ monitors: transparent wrappers installed while ISLa's own solver/evaluator run, recording the calls ISLa makes
to itself so that the property's oracle can judge them afterwards. Wrappers never raise into, and never change, the
observed call."""
import sys
import contextlib


def _rebind(orig, wrapper):
    """replace every module-level name in isla* / isla_formalizations* that is bound to `orig`"""
    done = []
    for mod in list(sys.modules.values()):
        name = getattr(mod, "__name__", "") or ""
        if not (name.startswith("isla") or name.startswith("isla_formalizations")):
            continue
        for attr, val in list(vars(mod).items()):
            if val is orig:
                setattr(mod, attr, wrapper)
                done.append((mod, attr))
    return done


def _bind(fn, a, k):
    """arguments by parameter name, whatever the call style (recording must not depend on positional order)"""
    import inspect
    b = inspect.signature(fn).bind(*a, **k)
    b.apply_defaults()
    return b.arguments


@contextlib.contextmanager
def record(which, cap=4000):
    """which: subset of {'insert_tree', 'expand_tree', 'struct_pred', 'is_valid', 'replace_path'}; yields a dict of lists"""
    import isla.existential_helpers as EH
    import isla.fuzzer as FZ
    import isla.language as L
    import isla.z3_helpers as ZH
    log = {k: [] for k in which}
    undo = []
    if "insert_tree" in which:
        orig = EH.insert_tree

        def insert_tree(*a, **k):
            res = orig(*a, **k)
            if len(log["insert_tree"]) < cap:
                try:
                    b = _bind(orig, a, k)
                    res = list(res)
                    log["insert_tree"].append((b["tree"], b["in_tree"], res, b.get("methods", 7), b.get("max_num_solutions", 50)))
                except Exception:
                    pass
            return res
        for mod, attr in _rebind(orig, insert_tree):
            undo.append((mod, attr, orig))
    if "expand_tree" in which:
        for cls in (FZ.GrammarFuzzer, FZ.GrammarCoverageFuzzer):
            if "expand_tree" in cls.__dict__:
                o = cls.__dict__["expand_tree"]

                def mk(o):
                    def expand_tree(self, tree, *a, **k):
                        out = o(self, tree, *a, **k)
                        if len(log["expand_tree"]) < cap:
                            log["expand_tree"].append((tree, out))
                        return out
                    return expand_tree
                setattr(cls, "expand_tree", mk(o))
                undo.append((cls, "expand_tree", o))
    if "struct_pred" in which:
        o = L.StructuralPredicate.__dict__["evaluate"]

        def evaluate(self, context_tree, *instantiations, **k):
            r = o(self, context_tree, *instantiations, **k)
            if len(log["struct_pred"]) < cap:
                log["struct_pred"].append((self.name, context_tree, instantiations, r))
            return r
        L.StructuralPredicate.evaluate = evaluate
        undo.append((L.StructuralPredicate, "evaluate", o))
        o2 = L.StructuralPredicateFormula.__dict__["evaluate"]

        def evaluate2(self, context_tree, *a, **k):
            r = o2(self, context_tree, *a, **k)
            if len(log["struct_pred"]) < cap:
                try:
                    paths = tuple(x if isinstance(x, str) else context_tree.find_node(x) for x in self.args)
                    log["struct_pred"].append((self.predicate.name, context_tree, paths, r))
                except Exception:
                    pass
            return r
        L.StructuralPredicateFormula.evaluate = evaluate2
        undo.append((L.StructuralPredicateFormula, "evaluate", o2))
    if "is_valid" in which:
        orig = ZH.is_valid

        def is_valid(formula, *a, **k):
            r = orig(formula, *a, **k)
            if len(log["is_valid"]) < cap:
                try:
                    log["is_valid"].append((formula.sexpr(), "T" if r.is_true() else "F" if r.is_false() else "U"))
                except Exception:
                    pass
            return r
        for mod, attr in _rebind(orig, is_valid):
            undo.append((mod, attr, orig))
    if "parse" in which:
        import isla.parser as PS
        o = PS.EarleyParser.__dict__["parse"]

        def parse(self, text, *a, **k):
            rec = None
            try:
                if len(log["parse"]) < cap:
                    rec = {"grammar": self._grammar, "start": self._start_symbol, "text": text, "trees": [], "exc": None, "advanced": False}
                    log["parse"].append(rec)
            except Exception:
                rec = None
            try:
                for t in o(self, text, *a, **k):
                    if rec is not None:
                        rec["advanced"] = True
                        if len(rec["trees"]) < 10:
                            rec["trees"].append(t)
                    yield t
            except SyntaxError as e:
                if rec is not None:
                    rec["advanced"] = True
                    rec["exc"] = e
                raise
        PS.EarleyParser.parse = parse
        undo.append((PS.EarleyParser, "parse", o))
    if "tree_ops" in which:
        from isla.derivation_tree import DerivationTree as DT
        o_rp = DT.__dict__["replace_path"]
        o_sub = DT.__dict__["substitute"]
        calls = [0]

        def replace_path(self, *a, **k):
            out = o_rp(self, *a, **k)
            calls[0] += 1
            if len(log["tree_ops"]) < cap and calls[0] % 7 == 0:
                try:
                    b = _bind(o_rp, (self,) + a, k)
                    log["tree_ops"].append(("replace_path", self, (tuple(b["path"]), b["replacement_tree"], bool(b.get("retain_id", False))), out))
                except Exception:
                    pass
            return out

        def substitute(self, subst_map, *a, **k):
            out = o_sub(self, subst_map, *a, **k)
            calls[0] += 1
            if len(log["tree_ops"]) < cap and calls[0] % 7 == 0:
                try:
                    log["tree_ops"].append(("substitute", self, dict(subst_map), out))
                except Exception:
                    pass
            return out
        DT.replace_path = replace_path
        DT.substitute = substitute
        undo.append((DT, "replace_path", o_rp))
        undo.append((DT, "substitute", o_sub))
    if "sem_pred" in which:
        o_sp = L.SemanticPredicate.__dict__["evaluate"]

        def sp_evaluate(self, graph, *instantiations, **k):
            r = o_sp(self, graph, *instantiations, **k)
            if len(log["sem_pred"]) < cap:
                log["sem_pred"].append((self.name, graph, instantiations, bool(k.get("negate", False)), r))
            return r
        L.SemanticPredicate.evaluate = sp_evaluate
        undo.append((L.SemanticPredicate, "evaluate", o_sp))
    try:
        yield log
    finally:
        for owner, attr, o in undo:
            setattr(owner, attr, o)


def solver_workload(ctx, rng, log_keys, families=None, nsolve=4, budget_s=12, random_share=0.3):
    """runs one solver instance (documented family or random formula) under `record`; returns the log"""
    import random, time
    from islamon.gen import grammars as GG, solvercases as SC
    from islamon.ref import semantics as R2
    fams = [x for x in SC.families(rng) if families is None or x[0] in families]
    fam, gname, f = rng.choice(fams) if rng.random() >= random_share else SC.random_family(rng)
    g = GG.FEATURE[gname]
    random.seed(rng.randrange(10 ** 6))
    with record(log_keys) as log:
        def go():
            s = SC.make_solver(g, R2.pr(f), SC.settings(rng), 8)
            t0 = time.time()
            for _ in range(nsolve):
                if time.time() - t0 > budget_s:
                    break
                try:
                    t = s.solve()
                except Exception:
                    break
                if "sem_pred" in log_keys:
                    # the finished solution goes through ISLa's own check(), which evaluates the predicates on a closed tree
                    try:
                        s.check(t)
                    except Exception:
                        pass
        ctx.guarded(go, timeout=budget_s + 10)
    return fam, gname, g, log
