"""Solver-friendly constraint families as reference ASTs (the shapes ISLa documents and tests), plus solver settings."""
from islamon.gen import grammars as GG
from islamon.ref.grammar import G
from islamon.gen.formulas import FGen


def mex(nt, alt_syms, binds):
    """match expression for one expansion alternative: alt_syms list of symbols, binds {index: var}"""
    kids, text = [], ""
    P = {}
    for i, s in enumerate(alt_syms):
        if s.startswith("<") and s.endswith(">"):
            kids.append((s, None))
            if i in binds:
                text += "{%s %s}" % (s, binds[i])
                P[binds[i]] = (i,)
            else:
                text += s
        else:
            kids.append((s, ()))
            text += s
    return (text, [((nt, tuple(kids)), P)])


def smt(text, *vars_):
    return ("smt", text, sorted(vars_))


def families(rng):
    """list of (family name, grammar name, AST)"""
    r = rng
    out = []
    # --- assignment language (spec introduction) -----------------------------------------------
    defuse = ("forall", "<assgn>", "a", "start", mex("<assgn>", ["<var>", " := ", "<rhs>"], {}),
              ("exists", "<assgn>", "d", "start", None, ("and", ("pred", "before", [("var", "d"), ("var", "a")]), smt("(= a a)", "a"))))
    out.append(("defuse-mexpr", "assgn",
                ("forall", "<rhs>", "r", "start", mex("<rhs>", ["<var>"], {0: "rv"}),
                 ("exists", "<assgn>", "d", "start", mex("<assgn>", ["<var>", " := ", "<rhs>"], {0: "lhs"}),
                  ("and", ("pred", "before", [("var", "d"), ("var", "r")]), smt("(= lhs rv)", "lhs", "rv"))))))
    out.append(("exists-mexpr-eq", "assgn",
                ("exists", "<assgn>", "a", "start", mex("<assgn>", ["<var>", " := ", "<rhs>"], {0: "l", 2: "rr"}), smt("(= l rr)", "l", "rr"))))
    # match expressions that span two nesting levels of a recursive nonterminal
    two_level = ("<stmt>", (("<assgn>", None), (" ; ", ()), ("<stmt>", (("<assgn>", (("<var>", None), (" := ", ()), ("<rhs>", None))),))))
    out.append(("forall-mexpr-two-levels", "assgn",
                ("forall", "<stmt>", "s", "start", ("<assgn> ; {<var> v} := <rhs>", [(two_level, {"v": (2, 0, 0)})]), smt(f'(= v "{r.choice("abc")}")', "v"))))
    nested_x = ("<x>", (("(", ()), ("<l>", (("<x>", None), ("<l>", None))), (")", ())))
    out.append(("forall-mexpr-two-levels-nest", "nest",
                ("forall", "<x>", "p", "start", ("({<x> h}<l>)", [(nested_x, {"h": (1, 0)})]), smt(f'(= h "{r.choice("ab")}")', "h"))))
    c = r.choice("abc")
    out.append(("forall-eq-literal", "assgn", ("forall", "<var>", "v", "start", None, smt(f'(= v "{c}")', "v"))))
    out.append(("exists-eq-literal", "assgn", ("exists", "<digit>", "d", "start", None, smt(f'(= d "{r.choice("0123")}")', "d"))))
    n = r.randint(1, 3)
    out.append(("count-literal", "assgn", ("count", "start", "<assgn>", n)))
    out.append(("count-existsint", "assgn", ("exists_int_count", "n", "start", "<assgn>", smt(f"(= (str.to.int n) {r.randint(1, 3)})", "n"))))
    out.append(("len-start", "assgn", smt(f"({r.choice(['>=', '=', '>'])} (str.len start) {r.choice([6, 15, 24])})", "start")))
    out.append(("forall-inside-neq", "assgn",
                ("forall", "<assgn>", "a", "start", mex("<assgn>", ["<var>", " := ", "<rhs>"], {0: "l", 2: "rr"}), ("not", smt("(= l rr)", "l", "rr")))))
    out.append(("disj", "assgn", ("or", ("forall", "<var>", "v", "start", None, smt('(= v "a")', "v")), ("count", "start", "<assgn>", 2))))
    out.append(("conj", "assgn", ("and", ("count", "start", "<assgn>", r.randint(1, 2)), ("exists", "<digit>", "d", "start", None, smt('(= d "3")', "d")))))
    out.append(("nth", "assgn", ("exists", "<assgn>", "a", "start", None, ("and", ("pred", "nth", ["2", ("var", "a"), ("var", "start")]),
                                                                            ("exists", "<var>", "v", "a", None, smt('(= v "c")', "v"))))))
    # --- numerals --------------------------------------------------------------------------------
    k = r.choice([3, 17, 99, 250])
    out.append(("int-gt", "numeral", ("forall", "<num>", "x", "start", None, smt(f"(> (str.to.int x) {k})", "x"))))
    out.append(("int-eq-exists", "numeral", ("exists", "<num>", "x", "start", None, smt(f"(= (str.to.int x) {r.choice([5, 42, 100, 7])})", "x"))))
    lo = r.choice([3, 10, 100])
    out.append(("int-range", "padnum", ("forall", "<val>", "v", "start", None,
                                        ("and", smt(f"(>= (str.to.int v) {lo})", "v"), smt(f"(<= (str.to.int v) {lo + r.choice([6, 30])})", "v")))))
    out.append(("len-eq", "padnum", ("forall", "<id>", "i", "start", None, smt(f"(= (str.len i) {r.choice([1, 3, 6])})", "i"))))
    out.append(("int-sum", "numeral", ("exists", "<num>", "x", "start", None, ("exists", "<num>", "y", "start", None,
                                                                              ("and", ("pred", "before", [("var", "x"), ("var", "y")]),
                                                                               smt(f"(= (str.to.int y) (+ (str.to.int x) {r.randint(1, 3)}))", "x", "y"))))))
    # --- nested lists / expr ----------------------------------------------------------------------
    out.append(("count-nest", "nest", ("count", "start", "<x>", r.randint(1, 4))))
    out.append(("exists-inside", "nest", ("exists", "<x>", "p", "start", mex("<x>", ["(", "<l>", ")"], {1: "inner"}),
                                          ("exists", "<x>", "q", "inner", None, smt('(= q "b")', "q")))))
    out.append(("forall-level", "nest", ("forall", "<x>", "p", "start", None, ("forall", "<x>", "q", "start", None,
                                                                               ("or", ("pred", "same_position", [("var", "p"), ("var", "q")]),
                                                                                ("or", ("not", smt("(= p q)", "p", "q")), ("not", smt('(= p "a")', "p"))))))))
    out.append(("regex", "assgn2", ("forall", "<n>", "x", "start", None, smt('(str.in_re x (re.+ (str.to_re "1")))', "x"))))
    out.append(("len-vals", "nestlist", ("forall", "<vals>", "v", "start", None, smt(f"(= (str.len v) {r.choice([1, 3, 5])})", "v"))))
    out.append(("eq-two-nodes", "nestlist", ("exists", "<key>", "k1", "start", None, ("exists", "<key>", "k2", "start", None,
                                                                                     ("and", ("pred", "before", [("var", "k1"), ("var", "k2")]), smt("(= k1 k2)", "k1", "k2"))))))
    out.append(("eps-mexpr", "eps", ("exists", "<r>", "x", "start", mex("<r>", ["<o>", "<k>", "<r>"], {0: "o", 1: "kk"}),
                                     ("and", smt('(= o "-")', "o"), smt('(= kk "p")', "kk")))))
    out.append(("count-optional-needle", "optrec", ("forall", "<rec>", "r", "start", None, ("count", "r", "<field>", r.randint(1, 2)))))
    out.append(("lines-exists-eq", "lines", ("exists", "<line>", "l", "start", None, smt(f'(= l "{r.choice(["ab", "a", "b;a"])}")', "l"))))
    out.append(("lines-count", "lines", ("count", "start", "<line>", r.randint(1, 3))))
    out.append(("different", "expr", ("forall", "<d>", "x", "start", None, ("forall", "<d>", "y", "start", None,
                                                                          ("or", ("pred", "same_position", [("var", "x"), ("var", "y")]), ("not", smt("(= x y)", "x", "y")))))))
    return out


def random_family(rng):
    gname = rng.choice(["assgn", "assgn2", "nest", "expr", "eps", "numeral", "padnum", "nestlist"])
    g = GG.FEATURE[gname]
    gen = FGen(g, rng, G(g))
    return "random", gname, gen.formula(rng.randint(1, 2), {"start": "<start>"})


def settings(rng, unsat=0.15):
    return {
        "max_number_free_instantiations": rng.choice([1, 3, 10]),
        "max_number_smt_instantiations": rng.choice([1, 3, 10]),
        "enable_optimized_z3_queries": rng.random() < 0.5,
        "enforce_unique_trees_in_queue": rng.random() < 0.5,
        "tree_insertion_methods": rng.choice([None, None, 1, 2, 3, 4, 5, 6, 7]),
        "max_number_tree_insertion_results": rng.choice([1, 5]),
        "activate_unsat_support": rng.random() < unsat,
    }


def make_solver(g, text, st, timeout_seconds=None):
    from isla.solver import ISLaSolver
    from isla.isla_predicates import STANDARD_STRUCTURAL_PREDICATES as SP, STANDARD_SEMANTIC_PREDICATES as MP
    kw = {k: v for k, v in st.items() if v is not None}
    return ISLaSolver(g, text, structural_predicates=SP, semantic_predicates=MP, timeout_seconds=timeout_seconds, **kw)
