"""Sugared ISLa syntax by construction: one (possibly extended) AST -> core AST (desugar) and sugared text (ps).

Extended node kinds (only produced here):
  ("implies", A, B) ("iff", A, B) ("xor", A, B)                       derived connectives
  ("xq", Q, A, a, invar, steps, tvar, body)                            quantifier whose body addresses a child/descendant of `a`
        steps = [(".", B, k), ...] optionally followed by ("..", C); body refers to the addressed node as variable `tvar`
Sugar decisions for ordinary nodes are taken by the printer from `opts`:
  drop_in_start, omit_names (set of quantifier variables), free (set of top-level universal variables), infix
"""
import re
from islamon.ref.grammar import is_nt
from islamon.ref import semantics as R2

BIN_EQ = {"=", "<", "<=", ">", ">="}
BIN_ADD = {"+", "-"}
BIN_MUL = {"*", "div", "mod"}
BIN_STR = {"str.++", "re.++", "str.<="}
PREFIX_OPS = {"str.len", "str.in_re", "str.to_re", "str.at", "str.substr", "str.prefixof", "str.suffixof", "str.contains", "str.indexof",
              "str.replace", "re.union", "re.inter", "re.comp", "re.diff", "re.opt", "re.range", "re.+", "re.*", "str.to.int",
              "str.from_int", "abs"}


# ---------------------------------------------------------------- S-expressions
def sx_parse(s):
    toks = re.findall(r'"(?:\\.|[^"\\])*"|[()]|[^\s()"]+', s, flags=re.S)
    pos = 0

    def rd():
        nonlocal pos
        t = toks[pos]
        pos += 1
        if t == "(":
            out = []
            while toks[pos] != ")":
                out.append(rd())
            pos += 1
            return out
        return t
    return rd()


def sx_print(x):
    return x if isinstance(x, str) else "(" + " ".join(sx_print(y) for y in x) + ")"


def sx_infix(x, rng, level=0):
    """print with infix / prefix notation where ISLa's grammar allows it; falls back to S-expressions.
    level: 0 = eq context, 1 = additive, 2 = multiplicative, 3 = operand of a string infix"""
    if isinstance(x, str):
        return x
    op, args = x[0], x[1:]
    if not isinstance(op, str):
        return sx_print(x)
    if op in PREFIX_OPS and rng.random() < 0.8:
        return f"{op}(" + ", ".join(sx_infix(a, rng, 0) for a in args) + ")"
    if len(args) == 2 and rng.random() < 0.8:
        if op in BIN_EQ and level == 0:
            return f"{sx_infix(args[0], rng, 1)} {op} {sx_infix(args[1], rng, 1)}"
        if op in BIN_ADD and level <= 1:
            return f"{sx_infix(args[0], rng, 1)} {op} {sx_infix(args[1], rng, 2)}"
        if op in BIN_MUL and level <= 2:
            return f"{sx_infix(args[0], rng, 2)} {op} {sx_infix(args[1], rng, 3)}"
    return "(" + " ".join([op] + [sx_infix(a, rng, 4) if not isinstance(a, str) and a and a[0] in PREFIX_OPS else sx_print(a) for a in args]) + ")"


def sx_rename(x, ren):
    if isinstance(x, str):
        return ren.get(x, x)
    return [sx_rename(y, ren) for y in x]


# ---------------------------------------------------------------- desugaring (documented translations)
class Unsupported(Exception):
    pass


def desugar(f, cg, fresh):
    """fresh: callable giving fresh names; fresh.mexprs (list) collects (nonterminal, symbols) of generated match expressions"""
    k = f[0]
    if k in ("forall", "exists"):
        return (k, f[1], f[2], f[3], f[4], desugar(f[5], cg, fresh))
    if k == "not":
        return ("not", desugar(f[1], cg, fresh))
    if k in ("and", "or"):
        return (k,) + tuple(desugar(g, cg, fresh) for g in f[1:])
    if k == "implies":
        return ("or", ("not", desugar(f[1], cg, fresh)), desugar(f[2], cg, fresh))
    if k == "iff":
        a, b = desugar(f[1], cg, fresh), desugar(f[2], cg, fresh)
        return ("or", ("and", a, b), ("and", ("not", a), ("not", b)))
    if k == "xor":
        a, b = desugar(f[1], cg, fresh), desugar(f[2], cg, fresh)
        return ("or", ("and", a, ("not", b)), ("and", b, ("not", a)))
    if k == "exists_int_count":
        return (k, f[1], f[2], f[3], desugar(f[4], cg, fresh))
    if k == "xq":
        return desugar_xq(f, cg, fresh)
    return f


def desugar_xq(f, cg, fresh):
    _, Q, A, a, invar, steps, tvar, body = f
    body = desugar(body, cg, fresh)
    child = [s for s in steps if s[0] == "."]
    desc = [s for s in steps if s[0] == ".."]
    inner_var = tvar
    if desc:
        # a..<C>  /  a.<B>[k]..<C>: the descendant segment becomes an inner universal quantifier
        C = desc[0][1]
        if child:
            inner_var = fresh("xb")
            body = ("forall", C, tvar, inner_var, None, body)
        else:
            return (Q, A, a, invar, None, ("forall", C, tvar, a, None, body))
    # child segments: one match expression per combination of expansion alternatives containing the child
    combos = [[]]
    cur = A
    for (_, B, k) in child:
        alts = [alt for alt in cg[cur] if sum(1 for s in alt if s == B) >= k]
        combos = [c + [(cur, alt, B, k)] for c in combos for alt in alts]
        cur = B
    if not combos or not combos[0]:
        raise Unsupported("no expansion alternative contains the addressed child")
    parts = []
    for combo in combos:
        def build(i, path):
            sym, alt, B, k = combo[i]
            kids, text, symbols, seen, bind = [], "", [], 0, None
            for j, s in enumerate(alt):
                if s == B:
                    seen += 1
                if s == B and seen == k:
                    if i + 1 < len(combo):
                        sub, t2, sy2, b2 = build(i + 1, path + (j,))
                        kids.append(sub)
                        text += t2
                        symbols += sy2
                        bind = b2
                    else:
                        kids.append((s, None))
                        text += "{%s %s}" % (s, inner_var)
                        symbols.append(s)
                        bind = path + (j,)
                elif is_nt(s):
                    kids.append((s, None))
                    text += s
                    symbols.append(s)
                else:
                    kids.append((s, ()))
                    text += s
                    symbols.append(s)
            return (sym, tuple(kids)), text, symbols, bind
        mt, text, symbols, bind = build(0, ())
        parts.append(((Q, A, a, invar, (text, [(mt, {inner_var: bind})]), body), symbols))
    forms = [p[0] for p in parts]
    for p in parts:
        fresh.mexprs.append((A, p[1]))
    if Q == "exists" and len(forms) > 1:
        fresh.exists_multi = True
    return forms[0] if len(forms) == 1 else (("and",) if Q == "forall" else ("or",)) + tuple(forms)


# ---------------------------------------------------------------- sugared printer
def ps(f, rng, opts, ren=None):
    ren = ren or {}
    k = f[0]
    name = lambda v: ren.get(v, v)
    if k in ("forall", "exists"):
        _, nt, var, invar, mexpr, body = f
        if var in opts.get("free", ()):
            return ps(body, rng, opts, {**ren, var: nt})
        m = f'="{R2.esc(mexpr[0])}"' if mexpr else ""
        r2 = dict(ren)
        vtxt = " " + var
        if var in opts.get("omit_names", ()) and not mexpr:
            vtxt = ""
            r2[var] = nt
        intxt = "" if (invar == "start" and opts.get("drop_in_start")) else f" in {name(invar)}"
        return f"{k} {nt}{vtxt}{m}{intxt}: ({ps(body, rng, opts, r2)})"
    if k == "xq":
        _, Q, A, a, invar, steps, tvar, body = f
        xp = name(a)
        for st in steps:
            if st[0] == ".":
                xp += f".{st[1]}" + (f"[{st[2]}]" if (st[2] != 1 or rng.random() < 0.3) else "")
            else:
                xp += f"..{st[1]}"
        intxt = "" if (invar == "start" and opts.get("drop_in_start")) else f" in {name(invar)}"
        if a in opts.get("free", ()):
            xp = A + xp[len(name(a)):]
            return ps(body, rng, opts, {**ren, tvar: xp, a: A})
        return f"{Q} {A} {a}{intxt}: ({ps(body, rng, opts, {**ren, tvar: xp})})"
    if k == "not":
        return f"not ({ps(f[1], rng, opts, ren)})"
    if k in ("and", "or", "implies", "iff", "xor"):
        return "(" + f" {k} ".join("(" + ps(g, rng, opts, ren) + ")" for g in f[1:]) + ")"
    if k == "pred":
        return f"{f[1]}(" + ", ".join(name(x[1]) if isinstance(x, tuple) else f'"{x}"' for x in f[2]) + ")"
    if k == "count":
        num = f[3]
        return f'count({name(f[1])}, "{f[2]}", ' + (f'"{num}"' if isinstance(num, int) else name(num[1])) + ")"
    if k == "smt":
        sx = sx_rename(sx_parse(f[1]), ren)
        return sx_infix(sx, rng) if opts.get("infix") else sx_print(sx)
    if k == "exists_int_count":
        _, nvar, var, needle, body = f
        return f'exists int {nvar}: (count({name(var)}, "{needle}", {nvar}) and {ps(body, rng, opts, ren)})'
    if k == "int_q":
        sx = sx_parse(f[3])
        return f"{f[1]} int {f[2]}: ({sx_infix(sx, rng) if opts.get('infix') else f[3]})"
    raise KeyError(k)


def quantifiers(f, top=True, acc=None):
    """[(node, is_top_level_universal_chain)]"""
    acc = [] if acc is None else acc
    k = f[0]
    if k in ("forall", "exists"):
        acc.append((f, top and k == "forall" and f[3] == "start"))
        quantifiers(f[5], top and k == "forall" and f[3] == "start", acc)
    elif k == "xq":
        acc.append((f, top and f[1] == "forall" and f[4] == "start"))
        quantifiers(f[7], False, acc)
    elif k == "not":
        quantifiers(f[1], False, acc)
    elif k in ("and", "or", "implies", "iff", "xor"):
        for g in f[1:]:
            quantifiers(g, False, acc)
    elif k == "exists_int_count":
        quantifiers(f[4], False, acc)
    return acc


def choose_opts(f, rng, kind=None):
    qs = quantifiers(f)
    nts = [q[0][1] if q[0][0] != "xq" else q[0][2] for q in qs]
    opts = {"drop_in_start": rng.random() < 0.6, "infix": rng.random() < 0.6 or kind == "arith_chain", "omit_names": set(), "free": set()}
    for (q, top), nt in zip(qs, nts):
        var0 = q[2] if q[0] != "xq" else q[3]
        if var0.startswith("forcefree"):
            opts["free"].add(var0)
            continue
        if nts.count(nt) != 1:
            continue   # `<type>` would be ambiguous
        var = q[2] if q[0] != "xq" else q[3]
        if top and rng.random() < 0.5 and (q[0] == "xq" or q[4] is None):
            opts["free"].add(var)
        elif q[0] != "xq" and q[4] is None and rng.random() < 0.4:
            opts["omit_names"].add(var)
    # free nonterminals must form a prefix of the top-level universal chain
    chain = [q[0][2] if q[0][0] != "xq" else q[0][3] for q in qs if q[1]]
    keep, ok = set(), True
    for v in chain:
        if v in opts["free"] and ok:
            keep.add(v)
        else:
            ok = False
    opts["free"] = keep
    return opts


# ---------------------------------------------------------------- case generator (shared by C07 / C08)
class Fresh:
    def __init__(self, gen):
        self.gen, self.mexprs, self.exists_multi = gen, [], False

    def __call__(self, base):
        return self.gen.fresh(base)


def gen_ext(gen, rng):
    """random extended AST over gen's grammar; returns (f, kind)"""
    cg = gen.cg
    scope = {"start": "<start>"}
    r = rng.random()
    if r < 0.08:
        # a free nonterminal next to a user-declared variable that is named like the nonterminal (`var` for `<var>`): the
        # fresh name chosen for the closed-over nonterminal must avoid it
        cands = [nt for nt in sorted(gen.reach["<start>"]) if re.fullmatch(r"<[A-Za-z][A-Za-z0-9_]*>", nt)]
        if cands:
            nt = rng.choice(cands)
            base, fv = nt[1:-1], gen.fresh("forcefree")
            sc = {base: nt, fv: nt}
            a1 = ("smt", f"(= {fv} {base})" if rng.random() < 0.5 else f"(= {base} {fv})", sorted([fv, base]))
            body = a1 if rng.random() < 0.5 else ("not", a1)
            if rng.random() < 0.4:
                body = (rng.choice(["and", "or"]), body, gen.atom({base: nt}))
            inner = (rng.choice(["forall", "exists"]), nt, base, "start", None, body)
            return ("forall", nt, fv, "start", None, inner), "free_named_clash"
    if r < 0.16:
        # integer arithmetic with three and more operands, mixed + / - / * (left-associative chains when printed infix)
        nts = sorted(gen.reach["<start>"])
        nt1, nt2 = rng.choice(nts), rng.choice(nts)
        v, w = gen.fresh("q"), gen.fresh("q")
        val = lambda x, nt: f"(str.to.int {x})" if nt in gen.numeral_nts and rng.random() < 0.7 else f"(str.len {x})"
        ops = lambda: rng.choice(["+", "-", "-", "+", "*"])
        a, b, c = val(v, nt1), val(w, nt2), str(rng.randint(0, 3))
        operands = [a, b, c]
        rng.shuffle(operands)
        chain = f"({ops()} ({ops()} {operands[0]} {operands[1]}) {operands[2]})"
        if rng.random() < 0.4:
            chain = f"({ops()} {chain} {rng.randint(1, 2)})"
        k = rng.randint(0, 4)
        rhs = str(k) if rng.random() < 0.7 else f"(- 0 {k})"
        atom = ("smt", f"({rng.choice(['=', '<=', '>', '>='])} {chain} {rhs})", sorted([v, w]))
        if rng.random() < 0.3:
            atom = ("not", atom)
        return (rng.choice(["forall", "exists"]), nt1, v, "start", None, (rng.choice(["forall", "exists"]), nt2, w, "start", None, atom)), "arith_chain"
    if r < 0.35:
        return gen.formula(rng.randint(1, 3), scope), "plain"
    if r < 0.6:
        op = rng.choice(["implies", "iff", "xor"])
        if rng.random() < 0.6:
            nt = rng.choice(sorted(gen.reach["<start>"]))
            v = gen.fresh("q")
            sc = {**scope, v: nt}
            return (rng.choice(["forall", "exists"]), nt, v, "start", None, (op, gen.formula(rng.randint(0, 1), sc), gen.formula(rng.randint(0, 1), sc))), "connective"
        return (op, gen.formula(rng.randint(0, 1), scope), gen.formula(rng.randint(0, 1), scope)), "connective"
    # XPath
    cands = [(A, B) for A in cg if A != "<start>" and A in gen.reach["<start>"] for alt in cg[A] for B in alt if is_nt(B)]
    if not cands:
        return gen.formula(2, scope), "plain"
    A, B = rng.choice(cands)
    a, t = gen.fresh("q"), gen.fresh("x")
    kmax = max(sum(1 for s in alt if s == B) for alt in cg[A])
    steps = [(".", B, rng.randint(1, kmax))]
    cur = B
    x = rng.random()
    if x < 0.25:
        subs = [C for alt in cg[B] for C in alt if is_nt(C)]
        if subs:
            C = rng.choice(subs)
            steps.append((".", C, 1))
            cur = C
    elif x < 0.5:
        below = sorted(gen.reach[B])
        if below:
            cur = rng.choice(below)
            steps.append(("..", cur))
    elif x < 0.6:
        below = sorted(gen.reach[A])
        if below:
            cur = rng.choice(below)
            steps = [("..", cur)]
    sc = {**scope, a: A, t: cur}
    body = gen.atom({t: cur}) if rng.random() < 0.6 else gen.atom(sc)
    if not _mentions(body, t):
        lit = gen.sample_str(cur)[:6].replace('"', "").replace("\\", "")
        body = ("smt", f'(= {t} "{lit}")', [t])
    Q = "forall" if rng.random() < 0.7 else "exists"
    return ("xq", Q, A, a, "start", steps, t, body), "xpath"


def _mentions(f, v):
    return re.search(r"(?<![\w<.])" + re.escape(v) + r"(?![\w>])", R2.pr(f) if f[0] != "xq" else "") is not None
