"""Random well-formed ISLa formulas as reference ASTs (see ref/semantics.py). No ISLa imports."""
import re
from islamon.ref.grammar import G, is_nt, tstr, split_alt

PH0 = 0xE000  # private-use placeholders, one per nonterminal, for match-expression ambiguity counting


class FGen:
    def __init__(self, g, rng, m=None, preds=None, allow_numeric=True, smt_rich=True, smt_bool=False):
        self.g, self.rng = g, rng
        self.m = m or G(g)
        self.cg, self.reach = self.m.cg, self.m.reach()
        self.n = 0
        self.naming = "plain"
        self._per_base = {}
        self.preds = preds or ["before", "after", "inside", "direct_child", "same_position", "different_position", "nth", "level", "consecutive"]
        self.allow_numeric = allow_numeric
        self.smt_rich = smt_rich
        self.smt_bool = smt_bool  # Boolean connectives *inside* one SMT atom (off by default: other checks keep their PRNG streams)
        self.numeral_nts = [a for a in self.cg if self._numeral(a)]
        self._phg = None

    # -- helpers -------------------------------------------------------------
    def fresh(self, base="v"):
        self.n += 1
        if self.naming == "underscore":
            # v, v_0, v_1, ...: exactly the names ISLa's own fresh-name generator would pick next, already taken by
            # variables bound further in (capture bait for renaming / closing-over code)
            k = self._per_base.get(base, 0)
            self._per_base[base] = k + 1
            return base if k == 0 else f"{base}_{k - 1}"
        return f"{base}{self.n}"

    def _numeral(self, nt):
        words, complete = self.m.language(nt, maxlen=3, cap=400)
        return bool(words) and all(re.fullmatch(r"[0-9]+", w) for w in words) and all(
            all(ch in "0123456789" for ch in s) for a in ({nt} | self.reach[nt]) for alt in self.cg[a] for s in alt if not is_nt(s))

    def sample_str(self, nt):
        return tstr(self.m.random_tree(self.rng, start=nt, budget=self.rng.choice([1, 4, 8])))

    def placeholder_grammar(self):
        if self._phg is None:
            ph = {a: chr(PH0 + i) for i, a in enumerate(self.cg)}
            g2 = {a: list(alts) + [ph[a]] for a, alts in self.g.items()}
            self._phg = (G(g2), ph)
        return self._phg

    def mexpr_ambiguous(self, nt, symbols):
        """symbols: list of terminals / nonterminals making up the match expression text"""
        m2, ph = self.placeholder_grammar()
        s = "".join(ph[x] if is_nt(x) else x for x in symbols)
        return m2.count_derivations(s, nt) != 1

    def mexpr(self, nt, depth=2):
        """random derivation prefix of nt -> (text, mtree, binds{var:(path,sym)}, symbols)"""
        rng = self.rng
        binds, symbols = {}, []

        def build(sym, d, path, top=False):
            if not is_nt(sym):
                symbols.append(sym)
                return (sym, ()), sym
            if not top and (d == 0 or rng.random() < 0.6):
                symbols.append(sym)
                if rng.random() < 0.5:
                    v = self.fresh("m")
                    binds[v] = (path, sym)
                    return (sym, None), "{%s %s}" % (sym, v)
                return (sym, None), sym
            alt = rng.choice(self.cg[sym])
            if not alt:
                return (sym, ()), ""
            kids_, text = [], ""
            for i, s in enumerate(alt):
                k, t = build(s, d - 1, path + (i,))
                kids_.append(k)
                text += t
            return (sym, tuple(kids_)), text
        mt, text = build(nt, depth, (), top=True)
        return text, mt, binds, symbols

    # -- formulas ------------------------------------------------------------
    def formula(self, depth, scope):
        rng = self.rng
        if depth > 0 and rng.random() < 0.75:
            invar = rng.choice(list(scope))
            cands = sorted(self.reach[scope[invar]] | {scope[invar]})
            nt = rng.choice(cands)
            var = self.fresh("q")
            sc = dict(scope)
            sc[var] = nt
            mexpr = None
            if rng.random() < 0.4:
                text, mt, binds, symbols = self.mexpr(nt)
                plain = re.sub(r"\{<[^<> ]*> \w+\}", "", text)  # the text without its binders
                if text and not re.search(r'["\\\[\{\n]', plain) and not self.mexpr_ambiguous(nt, symbols):
                    mexpr = (text, [(mt, {v: p for v, (p, s) in binds.items()})])
                    for v, (p, s) in binds.items():
                        sc[v] = s
            return (rng.choice(["forall", "exists"]), nt, var, invar, mexpr, self.formula(depth - 1, sc))
        r = rng.random()
        if r < 0.15:
            return ("not", self.formula(0, scope))
        if r < 0.4:
            n = 2 if rng.random() < 0.8 else 3
            return (rng.choice(["and", "or"]),) + tuple(self.formula(0, scope) for _ in range(n))
        return self.atom(scope)

    def atom(self, scope):
        rng = self.rng
        vars_ = list(scope)
        r = rng.random()
        v = rng.choice(vars_)
        if r < 0.22:
            lit = self.sample_str(scope[v])
            if re.search(r'["\\]', lit) or len(lit) > 12:
                lit = "x"
            return ("smt", f'(= {v} "{_q(lit)}")', [v])
        if r < 0.3:
            w = rng.choice(vars_)
            if w == v:
                return self.atom(scope)
            return ("smt", f"(= {v} {w})", sorted({v, w}))
        if r < 0.4:
            return ("smt", f"({rng.choice(['>', '<', '=', '>=', '<='])} (str.len {v}) {rng.randint(0, 4)})", [v])
        if self.smt_bool and 0.4 <= r < 0.47:
            return self.bool_smt(scope)
        if r < 0.5 and self.smt_rich:
            return self.rich_smt(scope, v)
        if r < 0.78:
            w = rng.choice(vars_)
            name = rng.choice(self.preds)
            if name == "nth":
                if not is_nt(scope[v]):
                    return self.atom(scope)
                return ("pred", "nth", [str(rng.randint(1, 3)), ("var", v), ("var", w)])
            if name == "level":
                return ("pred", "level", [rng.choice(["EQ", "GE", "LE", "GT", "LT"]), rng.choice(sorted(self.cg)), ("var", v), ("var", w)])
            return ("pred", name, [("var", v), ("var", w)])
        needle = rng.choice(sorted(self.reach[scope[v]] | {scope[v]}))
        if r < 0.9 or not self.allow_numeric:
            return ("count", v, needle, rng.randint(0, 3))
        if r < 0.97:
            n = self.fresh("n")
            return ("exists_int_count", n, v, needle,
                    ("smt", f"({rng.choice(['>', '<', '='])} (str.to.int {n}) {rng.randint(0, 3)})", [n]))
        n = self.fresh("n")
        q = rng.choice(["exists", "exists", "forall"])
        op = rng.choice(["=", ">", "<", ">="])
        return ("int_q", q, n, f"({op} (str.to.int {n}) {rng.randint(0, 5)})")

    def bool_smt(self, scope):
        """one SMT atom whose top operator combines Boolean sub-terms: equivalence (= B B), xor, =>, distinct, ite. The rewrites
        that push negations into SMT terms (z3_push_in_negations, SMTFormula negation) meet these only here."""
        rng = self.rng
        vs, used = list(scope), set()

        def simple():
            v = rng.choice(vs)
            used.add(v)
            if rng.random() < 0.6:
                lit = self.sample_str(scope[v])
                if re.search(r'["\\]', lit) or len(lit) > 12:
                    lit = "x"
                return f'(= {v} "{_q(lit)}")'
            return f"({rng.choice(['>', '<', '=', '>=', '<='])} (str.len {v}) {rng.randint(0, 4)})"

        def term(d):
            x = rng.random()
            if d <= 0 or x < 0.25:
                return simple()
            if x < 0.55:
                return f"(= {term(d - 1)} {term(d - 1)})"
            if x < 0.68:
                return f"(xor {term(d - 1)} {term(d - 1)})"
            if x < 0.8:
                return f"(=> {term(d - 1)} {term(d - 1)})"
            if x < 0.9:
                return f"(distinct {term(d - 1)} {term(d - 1)})"
            return f"(ite {term(d - 1)} {term(d - 1)} {term(d - 1)})"

        op = rng.choice(["=", "=", "=", "xor", "=>", "distinct", "ite"])
        args = [term(1) for _ in range(3 if op == "ite" else 2)]
        return ("smt", f"({op} {' '.join(args)})", sorted(used))

    def rich_smt(self, scope, v):
        rng = self.rng
        x = rng.random()
        nums = [u for u in scope if scope[u] in self.numeral_nts]
        if x < 0.3 and nums:
            u = rng.choice(nums)
            return ("smt", f"({rng.choice(['>', '<', '=', '>=', '<='])} (str.to.int {u}) {rng.choice([0, 1, 2, 5, 10, 12, 100])})", [u])
        if x < 0.38 and nums:
            # integer div/mod with a (often) negative dividend and a positive divisor: SMT-LIB keeps the remainder non-negative
            u = rng.choice(nums)
            op, k1, k2, k3 = rng.choice(["div", "div", "mod"]), rng.choice([1, 5, 10, 50, 200]), rng.choice([2, 3, 7]), rng.randint(0, 4)
            rhs = f"(- 0 {k3})" if op == "div" and rng.random() < 0.7 else str(k3)
            return ("smt", f"({rng.choice(['=', '=', '<=', '>'])} ({op} (- (str.to.int {u}) {k1}) {k2}) {rhs})", [u])
        if x < 0.45 and len(nums) > 1:
            u, w = rng.sample(nums, 2)
            return ("smt", f"({rng.choice(['<', '=', '<='])} (str.to.int {u}) (+ (str.to.int {w}) {rng.randint(0, 3)}))", sorted({u, w}))
        lit = self.sample_str(scope[v])[:3]
        if re.search(r'["\\]', lit):
            lit = "a"
        if x < 0.6:
            return ("smt", f'(str.{rng.choice(["prefixof", "suffixof", "contains"])} "{_q(lit)}" {v})' if rng.random() < 0.5
                    else f'(str.contains {v} "{_q(lit)}")', [v])
        if x < 0.8:
            c = (lit or "a")[0]
            if c in '"\\':
                c = "a"
            body = rng.choice([f'(re.+ (str.to_re "{_q(c)}"))', f'(re.* (re.union (str.to_re "{_q(c)}") (re.range "a" "z")))',
                               f'(re.++ (str.to_re "{_q(c)}") (re.* (re.range "0" "9")))', f'(re.opt (str.to_re "{_q(lit)}"))'])
            return ("smt", f"(str.in_re {v} {body})", [v])
        w = rng.choice(list(scope))
        return ("smt", f'(= (str.++ {v} "{_q(lit)}") (str.++ {w} "{_q(lit)}"))', sorted({v, w}))


def _q(s):
    """string literal body in ISLa concrete syntax: the only escape the specification defines is \\" for a quote;
    newlines/tabs are written raw (a backslash-n would be two characters for Z3). Generators avoid backslashes."""
    return s.replace('"', '\\"')


def unused_quantified_vars(f):
    """quantifiers whose bound variable does not occur in their body (and that have no match expression)"""
    from islamon.ref.semantics import pr
    out = []
    k = f[0]
    if k in ("forall", "exists"):
        _, nt, var, invar, mexpr, body = f
        used = re.search(r"(?<![\w])" + re.escape(var) + r"(?![\w])", pr(body)) is not None
        if not used and mexpr is None:
            out.append((k, nt, var))
        out += unused_quantified_vars(body)
    elif k == "not":
        out += unused_quantified_vars(f[1])
    elif k in ("and", "or"):
        for g in f[1:]:
            out += unused_quantified_vars(g)
    elif k == "exists_int_count":
        out += unused_quantified_vars(f[4])
    return out


def uses(f, what):
    from islamon.ref.semantics import subformulas
    for g in subformulas(f):
        if g[0] == "pred" and g[1] == what:
            return True
    return False
