"""Grammar corpus and random grammar generator (no ISLa imports)."""
import string
from islamon.ref.grammar import G, is_nt

ASSGN = {
    "<start>": ["<stmt>"],
    "<stmt>": ["<assgn>", "<assgn> ; <stmt>"],
    "<assgn>": ["<var> := <rhs>"],
    "<rhs>": ["<var>", "<digit>"],
    "<var>": list("abc"),
    "<digit>": list("0123"),
}

FEATURE = {
    "assgn": ASSGN,
    "assgn2": {"<start>": ["<s>"], "<s>": ["<a>", "<a>;<s>"], "<a>": ["<v>=<r>"], "<r>": ["<v>", "<n>"],
               "<v>": ["x", "y", "z"], "<n>": ["1", "2", "<n><n>"]},
    "nest": {"<start>": ["<l>"], "<l>": ["<x><l>", "<x>"], "<x>": ["a", "b", "(<l>)"]},
    "expr": {"<start>": ["<e>"], "<e>": ["<t>+<e>", "<t>"], "<t>": ["<f>*<t>", "<f>"], "<f>": ["<d>", "(<e>)"],
             "<d>": ["0", "1", "2", "<d><d>"]},
    "eps": {"<start>": ["<r>"], "<r>": ["<o><k><r>", "<k>"], "<o>": ["", "-"], "<k>": ["p", "q<k>"]},
    "leftrec": {"<start>": ["<e>"], "<e>": ["<e>+<n>", "<n>"], "<n>": ["1", "2", "3"]},
    "centre": {"<start>": ["<p>"], "<p>": ["a<p>b", "c", ""]},
    "ambig": {"<start>": ["<e>"], "<e>": ["<e><e>", "a", "b"]},
    "multichar": {"<start>": ["<w>"], "<w>": ["<k><w>", "<k>"], "<k>": ["ab", "abc", "a", "bc", "c"]},
    "numeral": {"<start>": ["<l>"], "<l>": ["<num>", "<num>,<l>"], "<num>": ["<lead><digits>", "<digit>"],
                "<digits>": ["<digit><digits>", "<digit>"], "<lead>": list("123456789"), "<digit>": list("0123456789")},
    "padnum": {"<start>": ["<rec>"], "<rec>": ["<id>=<val>"], "<id>": ["<c>", "<c><id>"], "<c>": list("abc"),
               "<val>": ["<digit>", "<digit><val>"], "<digit>": list("0123456789")},
    "nullchain": {"<start>": ["<a>"], "<a>": ["<b><c>x", "<b>"], "<b>": ["", "y<b>"], "<c>": ["", "z"]},
    "nestlist": {"<start>": ["<doc>"], "<doc>": ["<item>", "<item>\n<doc>"], "<item>": ["<key>: <vals>"],
                 "<key>": ["k", "kk"], "<vals>": ["<val>", "<val>,<vals>"], "<val>": ["u", "v", "[<vals>]"]},
    # records with optional fields: the counted nonterminal <field> is not recursive and is the first alternative of <opt>
    "optrec": {"<start>": ["<rec>"], "<rec>": ["<opt>|<opt>|<opt>"], "<opt>": ["<field>", "none"], "<field>": ["<ch>", "<ch><ch>"], "<ch>": ["a", "b", "c"]},
    # line-oriented format: every word ends in a newline
    "lines": {"<start>": ["<lines>"], "<lines>": ["<line>\n<lines>", "<line>\n"], "<line>": ["<ch>", "<ch><line>"], "<ch>": ["a", "b", ";"]},
}


def wide_grammar(width):
    """one rule with `width` symbols on its right-hand side (children index up to width-1)"""
    rhs = "".join("<c>" if i % 2 == 0 else "<d>" for i in range(width))
    return {"<start>": ["<w>"], "<w>": [rhs, "<c>"], "<c>": ["a", "b", "<e>"], "<d>": ["0", "1"], "<e>": ["(<c>)"]}


FEATURE["wide31"] = wide_grammar(31)
FEATURE["wide45"] = wide_grammar(45)
FEATURE["wide60"] = wide_grammar(60)

ALPHABET = "abxy01"


def random_grammar(rng, max_nts=6, allow_eps=True, alphabet=None, allow_cyclic=False, tries=200):
    alphabet = alphabet or rng.choice(["ab", "abc", "a1", "xy0", "ab("])
    for _ in range(tries):
        n = rng.randint(2, max_nts)
        nts = ["<%s>" % string.ascii_uppercase[i] for i in range(n)]
        g = {"<start>": [nts[0]]}
        for a in nts:
            alts = []
            for _k in range(rng.randint(1, 4)):
                syms = []
                for _s in range(rng.choice([0, 1, 1, 2, 2, 3, 4]) if allow_eps else rng.choice([1, 1, 2, 2, 3, 4])):
                    if rng.random() < 0.45:
                        syms.append(rng.choice(nts))
                    else:
                        syms.append("".join(rng.choice(alphabet) for _ in range(rng.choice([1, 1, 1, 2]))))
                alt = "".join(syms)
                if alt not in alts:
                    alts.append(alt)
            g[a] = alts
        m = G(g)
        if not m.well_formed():
            continue
        if not allow_cyclic and m.derives_self():
            continue
        return g
    return dict(FEATURE["nest"])


def nullable_chain_grammar(rng):
    """nonterminals that are nullable only *indirectly*, through rules that appear later in the grammar (forward references),
    and that are used several times side by side: stresses nullable-set computation and Earley's nullable prediction"""
    k = rng.randint(2, 4)
    names = ["<n%d>" % i for i in range(k)]
    g = {}
    first = names[0]
    shape = rng.choice(["pair", "layout", "triple", "mixed"])
    if shape == "pair":
        g["<start>"] = [first + first]
    elif shape == "layout":
        g["<start>"] = [first + "<item>"]
        g["<item>"] = [first + rng.choice("xy"), first + "x<item>"] if rng.random() < 0.5 else [first + "x"]
    elif shape == "triple":
        g["<start>"] = [first + "a" + first + first]
    else:
        g["<start>"] = ["<w>"]
        g["<w>"] = [first + "<w>" + first, "b", first]
    for i, n in enumerate(names):
        nxt = names[i + 1] if i + 1 < k else None
        alts = []
        if nxt:
            alts.append(nxt if rng.random() < 0.6 else nxt + nxt)
            if rng.random() < 0.6:
                alts.append(rng.choice("xy ") + (n if rng.random() < 0.3 else ""))
        else:
            alts = ["", rng.choice([" " + n, "y", "x" + n])] if rng.random() < 0.7 else [""]
        rng.shuffle(alts)
        g[n] = alts
    m = G(g)
    if m.well_formed() and not m.derives_self():
        return g
    return {"<start>": ["<a><a>"], "<a>": ["<b>", "x"], "<b>": ["<c>"], "<c>": [""]}


FEATURE["nullable-forward-pair"] = {"<start>": ["<a><a>"], "<a>": ["<b>", "x"], "<b>": ["<c>"], "<c>": [""]}
FEATURE["nullable-forward-layout"] = {"<start>": ["<ws><item>"], "<item>": ["<ws>x", "<ws>x;<item>"], "<ws>": ["<blanks>"], "<blanks>": ["", " <blanks>"]}


def shipped():
    """grammars shipped with ISLa (imports isla lazily)"""
    from isla_formalizations import csv as csvl, xml_lang, rest, scriptsizec
    out = {
        "csv": dict(csvl.CSV_GRAMMAR),
        "xml": dict(xml_lang.XML_GRAMMAR),
        "xmlns": dict(xml_lang.XML_GRAMMAR_WITH_NAMESPACE_PREFIXES),
        "rest": dict(rest.REST_GRAMMAR),
        "scriptsizec": dict(scriptsizec.SCRIPTSIZE_C_GRAMMAR),
    }
    return out


def recursive_nts(g):
    m = G(g)
    r = m.reach()
    return [a for a in m.cg if a in r[a]]
