"""Typed random ground SMT terms as plain tuples: (op, type, children, params).
Leaves: ("sconst","S",[],s) ("svar","S",[],i) ("iconst","I",[],n). No ISLa imports; z3 only for building."""
import z3

HOSTILE = ["", "a", "ab", "abc", "b", "ba", "\n", "a\n", "a\nb", "\r\n", "\t", "\\t", "\\n", "\\", '"', 'a"b', ".", "a.c", "[", "]", "^", "$",
           "*", "+", "?", "(", ")", "{", "}", "|", "-", "0", "7", "12", "007", "42", "é", "ß", "€", "\U0001F600", "\x00", " ", "aa",
           "a" * 40, "x y", "  ", "a  b", "   c", "\t\t", "'", "<", ">", "<a>", "a-c", "\x7f", "\xff"]
PLAIN = ["", "a", "ab", "abc", "b", "ba", "0", "7", "12", "007", "42", "aa", "x y", "abab", "c"]
NUMERALS = ["0", "7", "12", "007", "42", "100", "9"]
SIGNED = ["-5", "+3", "-0", "-12"]
BIG_NUMERALS = ["9007199254740992", "9007199254740993", "18014398509481985", "36028797018963969", "18446744073709551617",
                "123456789012345678901234567890"]
INTS = [-7, -3, -1, 0, 1, 2, 3, 5, 10, 97, 100000]  # no values >= 2^31: z3 4.11 simplify segfaults on huge string indices


class Gen:
    def __init__(self, rng, nvars=0, plain=False):
        self.rng, self.nvars, self.plain = rng, nvars, plain
        self.signed_used = False

    def sleaf(self):
        r = self.rng
        if self.nvars and r.random() < 0.5:
            return ("svar", "S", [], r.randrange(self.nvars))
        return ("sconst", "S", [], r.choice(PLAIN if self.plain else HOSTILE))

    def S(self, d):
        r = self.rng
        x = r.random()
        if d <= 0 or x < 0.45:
            return self.sleaf()
        if x < 0.62:
            return ("str.++", "S", [self.S(d - 1), self.S(d - 1)], None)
        if x < 0.72:
            return ("str.at", "S", [self.S(d - 1), self.I(d - 1)], None)
        if x < 0.82:
            return ("str.substr", "S", [self.S(d - 1), self.I(d - 1), self.I(d - 1)], None)
        if x < 0.9:
            return ("str.replace", "S", [self.S(d - 1), self.S(d - 1), self.S(d - 1)], None)
        if x < 0.95:
            return ("str.from_int", "S", [self.I(d - 1)], None)
        return ("str.from_code", "S", [self.I(d - 1)], None)

    def I(self, d):
        r = self.rng
        x = r.random()
        if d <= 0 or x < 0.3:
            return ("iconst", "I", [], r.choice(INTS))
        if x < 0.45:
            return ("str.len", "I", [self.S(d - 1)], None)
        if x < 0.55:
            if r.random() < 0.1:
                self.signed_used = True
                return ("str.to.int", "I", [("sconst", "S", [], r.choice(SIGNED))], None)
            return ("str.to.int", "I", [("sconst", "S", [], r.choice(NUMERALS))], None)
        if x < 0.62:
            return ("+", "I", [self.I(d - 1), self.I(d - 1)], None)
        if x < 0.68:
            return ("-", "I", [self.I(d - 1), self.I(d - 1)], None)
        if x < 0.74:
            return ("*", "I", [self.I(d - 1), self.I(d - 1)], None)
        if x < 0.8:
            return ("div", "I", [self.I(d - 1), self.I(d - 1)], None)
        if x < 0.86:
            return ("mod", "I", [self.I(d - 1), self.I(d - 1)], None)
        if x < 0.89:
            return ("neg", "I", [self.I(d - 1)], None)
        if x < 0.92:
            return ("abs", "I", [self.I(d - 1)], None)
        if x < 0.96:
            return ("str.indexof", "I", [self.S(d - 1), self.S(d - 1), self.I(d - 1)], None)
        return ("str.to_code", "I", [self.S(d - 1)], None)

    def R(self, d):
        r = self.rng
        x = r.random()
        if d <= 0 or x < 0.3:
            return ("str.to_re", "R", [("sconst", "S", [], r.choice(PLAIN if self.plain else HOSTILE))], None)
        if x < 0.4:
            lo, hi = (r.choice("a0A"), r.choice("cz9Z")) if (self.plain or r.random() < 0.6) else (r.choice("a0[^\\!-"), r.choice("c9]az\\-~"))
            return ("re.range", "R", [("sconst", "S", [], lo), ("sconst", "S", [], hi)], None)
        if x < 0.5:
            return ("re.++", "R", [self.R(d - 1), self.R(d - 1)], None)
        if x < 0.6:
            return ("re.union", "R", [self.R(d - 1), self.R(d - 1)], None)
        if x < 0.67:
            return ("re.*", "R", [self.R(d - 1)], None)
        if x < 0.74:
            return ("re.+", "R", [self.R(d - 1)], None)
        if x < 0.8:
            return ("re.opt", "R", [self.R(d - 1)], None)
        if x < 0.86:
            lo = r.randint(0, 2)
            hi = 0 if r.random() < 0.08 else max(1, lo + r.randint(0, 2))  # hi == 0: Z3's "no upper bound" form
            return ("re.loop", "R", [self.R(d - 1)], (lo, hi))
        if x < 0.89:
            return ("re.all", "R", [], None)
        if x < 0.91:
            return ("re.allchar", "R", [], None)
        if x < 0.92:
            return ("re.none", "R", [], None)
        if x < 0.95:
            return ("re.comp", "R", [self.R(d - 1)], None)
        if x < 0.975:
            return ("re.inter", "R", [self.R(d - 1), self.R(d - 1)], None)
        return ("re.diff", "R", [self.R(d - 1), self.R(d - 1)], None)

    def B(self, d, top=False):
        r = self.rng
        x = r.random()
        if r.random() < 0.03:
            # numerals beyond 2^53 (and beyond 64 bit): exact integer reading, compared with a neighbouring constant
            n = r.choice(BIG_NUMERALS)
            lhs = ("str.to.int", "I", [("sconst", "S", [], n)], None)
            if r.random() < 0.3:
                lhs = (r.choice(["+", "-"]), "I", [lhs, ("iconst", "I", [], r.choice([0, 1, 2]))], None)
            return (r.choice(["=", "=", "<", "<=", ">", ">="]), "B", [lhs, ("iconst", "I", [], int(n) + r.choice([-2, -1, 0, 0, 1, 2]))], None)
        if x < 0.22:
            return ("str.in_re", "B", [self.S(d - 1), self.R(d)], None)
        if x < 0.36:
            return ("=", "B", [self.S(d), self.S(d)], None)
        if x < 0.6:
            return (r.choice(["<", "<=", ">", ">=", "="]), "B", [self.I(d), self.I(d)], None)
        if x < 0.66:
            return (r.choice(["str.prefixof", "str.suffixof", "str.contains"]), "B", [self.S(d), self.S(d)], None)
        if x < 0.7:
            return (r.choice(["str.<", "str.<="]), "B", [self.S(d), self.S(d)], None)
        if x < 0.73:
            return ("distinct", "B", [self.I(d), self.I(d)] if r.random() < 0.5 else [self.S(d), self.S(d)], None)
        if d <= 0 or top:
            return ("=", "B", [self.S(0), self.S(0)], None)
        if x < 0.8:
            return ("not", "B", [self.B(d - 1)], None)
        if x < 0.87:
            return ("and", "B", [self.B(d - 1), self.B(d - 1)], None)
        if x < 0.93:
            return ("or", "B", [self.B(d - 1), self.B(d - 1)], None)
        if x < 0.96:
            return ("=>", "B", [self.B(d - 1), self.B(d - 1)], None)
        if x < 0.98:
            return ("xor", "B", [self.B(d - 1), self.B(d - 1)], None)
        return ("ite", "B", [self.B(d - 1), self.B(d - 1), self.B(d - 1)], None)


def mk_eq(a, b):
    return z3.BoolRef(z3.Z3_mk_eq(a.ctx_ref(), a.as_ast(), b.as_ast()), a.ctx)


def to_z3(t, env=None, var_names=None):
    """env: list of strings to substitute for svar i; var_names: names for free String constants instead"""
    op, ty, ch, par = t
    if op == "sconst":
        return z3.StringVal(par)
    if op == "svar":
        return z3.StringVal(env[par]) if env is not None else z3.String(var_names[par])
    if op == "iconst":
        return z3.IntVal(par)
    c = [to_z3(x, env, var_names) for x in ch]
    if op == "str.++": return z3.Concat(c[0], c[1])
    if op == "str.at": return z3.SubString(c[0], c[1], z3.IntVal(1)) if False else c[0].at(c[1])
    if op == "str.substr": return z3.SubString(c[0], c[1], c[2])
    if op == "str.replace": return z3.Replace(c[0], c[1], c[2])
    if op == "str.from_int": return z3.IntToStr(c[0])
    if op == "str.from_code": return z3.StrFromCode(c[0])
    if op == "str.len": return z3.Length(c[0])
    if op == "str.to.int": return z3.StrToInt(c[0])
    if op == "+": return c[0] + c[1]
    if op == "-": return c[0] - c[1]
    if op == "*": return c[0] * c[1]
    if op == "div": return c[0] / c[1]
    if op == "mod": return c[0] % c[1]
    if op == "neg": return -c[0]
    if op == "abs": return z3.Abs(c[0])
    if op == "str.indexof": return z3.IndexOf(c[0], c[1], c[2])
    if op == "str.to_code": return z3.StrToCode(c[0])
    if op == "str.to_re": return z3.Re(c[0])
    if op == "re.range": return z3.Range(c[0], c[1])
    if op == "re.++": return z3.Concat(*c) if len(c) > 1 else c[0]
    if op == "re.union": return z3.Union(*c) if len(c) > 1 else c[0]
    if op == "re.*": return z3.Star(c[0])
    if op == "re.+": return z3.Plus(c[0])
    if op == "re.opt": return z3.Option(c[0])
    if op == "re.loop": return z3.Loop(c[0], par[0], par[1])
    if op == "re.all": return z3.Full(z3.ReSort(z3.StringSort()))
    if op == "re.allchar": return z3.AllChar(z3.ReSort(z3.StringSort()))
    if op == "re.none": return z3.Empty(z3.ReSort(z3.StringSort()))
    if op == "re.comp": return z3.Complement(c[0])
    if op == "re.inter": return z3.Intersect(c[0], c[1])
    if op == "re.diff": return z3.Diff(c[0], c[1])
    if op == "str.in_re": return z3.InRe(c[0], c[1])
    if op == "=": return mk_eq(c[0], c[1])
    if op == "distinct": return z3.Distinct(c[0], c[1])
    if op == "<": return c[0] < c[1]
    if op == "<=": return c[0] <= c[1]
    if op == ">": return c[0] > c[1]
    if op == ">=": return c[0] >= c[1]
    if op == "str.<": return c[0] < c[1]
    if op == "str.<=": return c[0] <= c[1]
    if op == "str.prefixof": return z3.PrefixOf(c[0], c[1])
    if op == "str.suffixof": return z3.SuffixOf(c[0], c[1])
    if op == "str.contains": return z3.Contains(c[0], c[1])
    if op == "not": return z3.Not(c[0])
    if op == "and": return z3.And(c[0], c[1])
    if op == "or": return z3.Or(c[0], c[1])
    if op == "=>": return z3.Implies(c[0], c[1])
    if op == "xor": return z3.Xor(c[0], c[1])
    if op == "ite": return z3.If(c[0], c[1], c[2])
    raise KeyError(op)


def esc(s):
    return s.replace("\\", "\\\\").replace('"', '\\"').replace("\n", "\\n").replace("\t", "\\t").replace("\r", "\\r")


def to_text(t, var_names):
    """prefix S-expression in ISLa concrete syntax (plain constants only)"""
    op, ty, ch, par = t
    if op == "sconst":
        return '"' + esc(par) + '"'
    if op == "svar":
        return var_names[par]
    if op == "iconst":
        return str(par) if par >= 0 else f"(- {-par})"
    c = [to_text(x, var_names) for x in ch]
    name = {"neg": "-", "str.<": "str.<", "re.loop": None}.get(op, op)
    if op == "re.loop":
        # hi == 0 is the Z3 API's "no upper bound"; in SMT-LIB text that is the one-index form ((_ re.loop 2 0) would be the
        # empty language, lo > hi)
        return f"((_ re.loop {par[0]}) {c[0]})" if par[1] == 0 else f"((_ re.loop {par[0]} {par[1]}) {c[0]})"
    if not c:
        return op
    return "(" + name + " " + " ".join(c) + ")"


def ops_of(t, acc=None):
    acc = set() if acc is None else acc
    if t[0] not in ("sconst", "svar", "iconst"):
        acc.add(t[0])
    for c in t[2]:
        ops_of(c, acc)
    return acc


def subst(t, env):
    if t[0] == "svar":
        return ("sconst", "S", [], env[t[3]])
    return (t[0], t[1], [subst(c, env) for c in t[2]], t[3])


def size(t):
    return 1 + sum(size(c) for c in t[2])
