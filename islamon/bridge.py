"""Conversions between plain nested lists and ISLa objects (imports isla)."""
from isla.derivation_tree import DerivationTree


def to_dt(n, keep_ids=True):
    """[label, children|None, id?] -> DerivationTree (fresh ids when id missing)"""
    label, ch = n[0], n[1]
    nid = n[2] if (keep_ids and len(n) > 2 and n[2] is not None) else None
    return DerivationTree(label, None if ch is None else [to_dt(c, keep_ids) for c in ch], id=nid)


def from_dt(t):
    ch = t.children
    return [t.value, None if ch is None else [from_dt(c) for c in ch], t.id]


def eps_reencode(n, style):
    """re-encode every epsilon expansion of a nested-list tree: style 'empty' -> [], 'fuzzer' -> [['', []]]"""
    label, ch = n[0], n[1]
    rest = n[2:] if len(n) > 2 else []
    if ch is None:
        return [label, None, *rest]
    if label.startswith("<") and (len(ch) == 0 or (len(ch) == 1 and ch[0][0] == "" and not ch[0][1])):
        return [label, [] if style == "empty" else [["", []]], *rest]
    return [label, [eps_reencode(c, style) for c in ch], *rest]


def cut(n, rng, ncuts=1, keep_root=True):
    """open prefix of a closed nested-list tree: replace `ncuts` random inner nonterminal nodes by open leaves"""
    import copy
    t = copy.deepcopy(n)
    for _ in range(ncuts):
        cands = []
        stack = [(t, 0)]
        while stack:
            x, d = stack.pop()
            if x[0].startswith("<") and x[1]:
                if d > 0 or not keep_root:
                    cands.append(x)
                for c in x[1]:
                    stack.append((c, d + 1))
        if not cands:
            break
        rng.choice(cands)[1] = None
    return t


def cut_same_label(n, rng, k=2):
    """open prefix with >= 2 open leaves of the SAME nonterminal (when the tree has such a label); else like cut()"""
    import copy
    t = copy.deepcopy(n)
    by = {}
    stack = [(t, 0)]
    while stack:
        x, d = stack.pop()
        if x[0].startswith("<") and x[1]:
            if d > 0:
                by.setdefault(x[0], []).append(x)
            for c in x[1]:
                stack.append((c, d + 1))
    cands = [v for v in by.values() if len(v) >= 2]
    if not cands:
        return cut(n, rng, ncuts=k)
    nodes_ = rng.choice(cands)
    for x in rng.sample(nodes_, min(len(nodes_), rng.choice([2, 2, 3]))):
        x[1] = None
    return t
