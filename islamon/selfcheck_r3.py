from islamon.ref.predicates import before, pred_eval


def main():
    # isBefore table from the spec and the comments in the implementation
    assert before((0, 2), (2, 0)) and not before((2, 0), (0, 2))
    assert not before((1,), (1, 0)) and not before((1,), ()) and before((1, 0), (1, 1))
    assert not before((), (0,)) and not before((0,), (0,))
    t = ["<s>", [["<a>", [["x", []]]], [";", []], ["<s>", [["<a>", [["y", []]]]]]]]
    assert pred_eval("after", t, [(2, 0), (0,)]) is True
    assert pred_eval("after", t, [(0, 0), (0,)]) is False      # below is not after
    assert pred_eval("inside", t, [(0, 0), (0,)]) and not pred_eval("inside", t, [(0,), (0, 0)])
    assert pred_eval("consecutive", t, [(0, 0), (1,)]) is True and pred_eval("consecutive", t, [(0, 0), (2, 0, 0)]) is False
    assert pred_eval("consecutive", t, [(0,), (1,)]) is None
    assert pred_eval("nth", t, ["2", (2, 0), ()]) is True and pred_eval("nth", t, ["1", (2, 0), ()]) is False
    assert pred_eval("nth", t, ["1", (2, 0), (2,)]) is True
    print("selfcheck: R3 ok")
