"""C06: a definite verdict on an open tree never contradicts the verdict on any closed completion."""
import json, copy
from islamon.ref.grammar import G, nodes, lab, kids, is_nt
from islamon.ref import semantics as R2
from islamon.gen import grammars as GG
from islamon.gen.formulas import FGen, uses

SPEC = {
    "quick": {"shards": 16, "budget_s": 50, "timeout_s": 260},
    "thorough": {"shards": 16, "budget_s": 900, "timeout_s": 1600},
    "rule": "case = (grammar, formula, open prefix P of a closed tree T obtained by cutting 1-3 inner nodes, ids kept): evaluate(P); "
            "when TRUE/FALSE, every closed completion (T itself, 4 random re-derivations of the cut nodes, larger 'adversarial' "
            "re-derivations) that keeps P's node ids must get the same definite verdict (UNKNOWN on a completion is "
            "inconclusive). Formulas from the general generator weighted to match expressions, nth, level, count, nested "
            "quantifiers; a share with numeric quantifiers is accounted separately. distinct = distinct (grammar, formula "
            "skeleton, open verdict)",
    "minimum": {"quick": {"open_definite": 500, "open_definite_with_mexpr": 60, "open_definite_no_numeric": 300, "completions_compared": 2000,
                          "open_unknown": 200},
                "thorough": {"open_definite": 12000, "open_definite_with_mexpr": 1500, "completions_compared": 50000}},
    "assumptions": ["self-consistency of ISLa's own evaluate, as the property states; R2 on completions is recorded only",
                    "exceptions from evaluate on open trees are recorded, not judged (C06 does not forbid raising)"],
}

KF_NUMQ = "C06:numeric-quantifier-path:not-valid-as-false"
KF_NTH = "C06:nth:open-left-sibling"
KF_MEXPR = "C06:match-expression:parent-extension-missed"
KF_DROPPED = "C06:quantifier-dropped:empty-domain-in-prefix"
KF_COUNT = "C06:count:candidate-search-exhausted-as-false"
KF_SELFREC = "C06:open-leaf-of-quantified-recursive-type:nested-occurrence-missed"

CORPUS = ["assgn", "assgn2", "nest", "expr", "eps", "leftrec", "centre", "nestlist", "numeral", "padnum", "nullchain"]


def ev3(ctx, text, tree, g):
    from isla.evaluator import evaluate
    from isla.isla_predicates import STANDARD_STRUCTURAL_PREDICATES as SP, STANDARD_SEMANTIC_PREDICATES as MP
    st, r = ctx.guarded(evaluate, text, tree, g, structural_predicates=SP, semantic_predicates=MP, timeout=20)
    if st == "watchdog":
        return "TO"
    if st == "exc":
        return "EXC " + type(r).__name__
    return "T" if r.is_true() else "F" if r.is_false() else "U"


def complete(P_l, m, rng, budget):
    t = copy.deepcopy(P_l)
    stack = [t]
    while stack:
        x = stack.pop()
        if x[1] is None:
            sub = m.random_tree(rng, start=x[0], budget=budget, eps_style="empty")
            x[1] = sub[1]
        else:
            stack.extend(x[1])
    return t


def judge(ctx, gname, g, m, f, T_l, P_l, rng):
    from islamon.bridge import to_dt
    text = R2.pr(f)
    ctx.ev()
    P = to_dt(P_l)
    vo = ev3(ctx, text, P, g)
    numq = R2.has_numeric_quantifier(f)
    mex = any(q[0] in ("forall", "exists") and q[4] for q in R2.subformulas(f))
    if vo == "U":
        ctx.count("open_unknown")
        return
    if vo not in ("T", "F"):
        ctx.count("open_" + vo.replace(" ", "_"))
        return ctx.inconclusive("open-tree-" + ("watchdog" if vo == "TO" else "raised"))
    ctx.count("open_definite")
    if mex:
        ctx.count("open_definite_with_mexpr")
    if not numq:
        ctx.count("open_definite_no_numeric")
    comps = [("original", T_l)] + [("random", complete(P_l, m, rng, rng.choice([1, 3, 6]))) for _ in range(4)] + \
            [("adversarial", complete(P_l, m, rng, rng.choice([15, 30]))) for _ in range(2)]
    flipped = False
    for kind, C_l in comps:
        vc = ev3(ctx, text, to_dt(C_l), g)
        if vc not in ("T", "F"):
            ctx.inconclusive("completion-" + ("unknown" if vc == "U" else "watchdog" if vc == "TO" else "raised"))
            continue
        ctx.count("completions_compared")
        if vc != vo and not flipped:
            flipped = True
            key = None
            from islamon import patches
            has_count = any(q[0] == "count" for q in R2.subformulas(f))
            grows = domain_grows(f, P_l, C_l)
            if has_count:
                # count() answers False when its bounded candidate search fails on an open tree. Repaired twin: with "search
                # exhausted" read as "not ready", does the contradiction vanish? (a premature verdict that count() gives
                # without entering the search is not this mechanism)
                with patches.count_search_not_a_verdict() as seen:
                    vo2 = ev3(ctx, text, to_dt(P_l), g)
                    vc2 = ev3(ctx, text, to_dt(C_l), g)
                if seen["false_after_search_on_open_tree"] and (vo2 == "U" or (vo2 in ("T", "F") and vc2 == vo2)):
                    key = KF_COUNT
            if key is None and not numq:
                with patches.no_forall_drop():   # repaired twin: does the contradiction vanish without the shortcut?
                    vo2 = ev3(ctx, text, to_dt(P_l), g)          # (the shortcut can falsify either side: a premature verdict
                    vc2 = ev3(ctx, text, to_dt(C_l), g)          #  on the open tree, or a wrong one on the closed completion)
                if (vo2 == "U" or (vo2 in ("T", "F") and vc2 == vo2)) and (vo2, vc2) != (vo, vc):
                    key = KF_DROPPED
            if key is None:
                # the remaining listed mechanisms are all "a match that only the completion contains was not anticipated";
                # they can explain a contradiction only if some quantifier's set of matching nodes grows in the completion
                if numq:
                    key = KF_NUMQ
                elif not grows:
                    ctx.count("contradiction_without_domain_growth")
                elif uses(f, "nth"):
                    key = KF_NTH
                elif mex:
                    key = KF_MEXPR
                elif any(q[0] in ("forall", "exists") and any(kids(n) is None and lab(n) == q[1] and q[1] in m.reach()[q[1]] for _, n in nodes(P_l))
                         for q in R2.subformulas(f)):
                    key = KF_SELFREC   # an open leaf of the quantified (recursive) type: occurrences nested below it are not anticipated
            ref = R2.evaluate_ref(f, to_dt(C_l))
            ctx.violation(key, f"open tree verdict {vo}, {kind} completion verdict {vc} (specification on the completion: {ref})",
                          {"grammar": g, "formula": text, "ast": f, "open": P_l, "completion": C_l})
    if not flipped:
        ctx.held((gname, R2.skeleton(f), vo), sample={"grammar": gname, "formula": text, "open_tree": P.to_string(show_open_leaves=True)[:80], "open_verdict": vo,
                                                       "completions": len(comps)})


def domain_grows(f, P_l, C_l):
    """does some tree quantifier of f (or the needle of a count / the type counted by nth) have more matching nodes in the
    completion than in the open prefix? (R2's own match relation; scoping by the in-variable is ignored: an upper bound)"""
    def matches(q, tree):
        nt, mexpr = q[1], q[4]
        n = 0
        for _, x in nodes(tree):
            if lab(x) != nt:
                continue
            if mexpr is None or any(R2.match(x, mt, P) is not None for mt, P in mexpr[1]):
                n += 1
        return n
    for q in R2.subformulas(f):
        if q[0] in ("forall", "exists") and matches(q, C_l) > matches(q, P_l):
            return True
    return False


def run(ctx):
    from islamon.bridge import to_dt, from_dt, cut, cut_same_label
    rng = ctx.rng
    while ctx.running():
        gname = rng.choice(CORPUS) if rng.random() < 0.85 else "random"
        g = GG.FEATURE[gname] if gname != "random" else GG.random_grammar(rng, max_nts=4)
        m = G(g)
        gen = FGen(g, rng, m)
        if rng.random() < 0.3:
            # nested quantifiers without match expression: the inner one ranges over the variable of the outer one
            outer = rng.choice(sorted(gen.reach["<start>"]))
            inner_c = sorted(gen.reach[outer] | {outer})
            inner = rng.choice(inner_c)
            a, b = gen.fresh("q"), gen.fresh("q")
            body = gen.atom({b: inner}) if rng.random() < 0.6 else gen.atom({a: outer, b: inner, "start": "<start>"})
            if rng.random() < 0.3:
                body = ("not", body)
            f = (rng.choice(["forall", "exists"]), outer, a, "start", None, (rng.choice(["forall", "exists"]), inner, b, a, None, body))
            ctx.count("nested_quantifier_templates")
        else:
            f = gen.formula(rng.randint(1, 3), {"start": "<start>"})
        for _ in range(3):
            T_l = from_dt(to_dt(m.random_tree(rng, budget=rng.choice([4, 8, 15, 25]), eps_style="empty")))
            P_l = cut_same_label(T_l, rng) if rng.random() < 0.4 else cut(T_l, rng, ncuts=rng.choice([1, 1, 2, 3]))
            if P_l == T_l:
                continue
            st, v = ctx.guarded(judge, ctx, gname, g, m, f, T_l, P_l, rng, timeout=150)
            if st == "watchdog":
                ctx.inconclusive("watchdog")
            elif st == "exc":
                raise v


def replay(ctx, w):
    from islamon.bridge import to_dt

    def fix(x):
        if isinstance(x, dict):
            return {k: fix(v) for k, v in x.items()}
        return tuple(fix(y) for y in x) if isinstance(x, list) else x
    g = w["grammar"]
    vo, vc = ev3(ctx, w["formula"], to_dt(w["open"]), g), ev3(ctx, w["formula"], to_dt(w["completion"]), g)
    if vo in ("T", "F") and vc in ("T", "F") and vo != vc:
        ctx.violation(None, f"open {vo} vs completion {vc}", w)
    elif vo in ("T", "F") and vc == vo:
        ctx.held(("replay",))
    else:
        ctx.inconclusive("not definite")
