"""C15: integer intervals inferred from a regex == integers it matches; compression keeps the language."""
import re, sys, json
from islamon.ref import regexints as R5
from islamon.gen import smtatoms as SA

SPEC = {
    "quick": {"shards": 16, "budget_s": 40, "timeout_s": 200},
    "thorough": {"shards": 16, "budget_s": 700, "timeout_s": 1300},
    "rule": "interval case = regex generated from the grammar in numeric_intervals_from_regex's docstring (single, range, "
            "zeroes, full, union, the four sequence shapes, optional signs, zero padding; depth <= 3) plus shapes just outside "
            "it; judged when Some(intervals): (subset) every integer string over {+,-,0-9} up to length 4 the regex matches "
            "lies in an interval; (superset) sampled interval members (bounds, bounds+-1, 0, +-1, interior, large) have an "
            "accepted encoding [sign]0^k digits, k<=10; sampled non-members just outside the bounds have none. compression "
            "case = list of r, r*, r+ runs in all orders: Concat(parts) and Concat(compressed) accept the same strings up to "
            "length 6 over the regex alphabet. distinct = distinct regex ASTs / part lists",
    "minimum": {"quick": {"intervals_judged": 1500, "nothing": 50, "compressions_judged": 800},
                "thorough": {"intervals_judged": 40000, "compressions_judged": 20000}},
    "assumptions": ["R5: own translation of the regex subset to Python re, cross-checked against Z3 InRe in setup.sh",
                    "integer value = optional sign, optional zero padding, decimal digits; +-sys.maxsize bounds are open"],
}

KF_FULL = "C15:full-range:symmetric-infinite-interval"
KF_SIGNPAD = "C15:sign-after-padding"
MAXS = sys.maxsize


def sc(s):
    return ("sconst", "S", [], s)


def lit(s):
    return ("str.to_re", "R", [sc(s)], None)


def rng_(a, b):
    return ("re.range", "R", [sc(a), sc(b)], None)


def star(x):
    return ("re.*", "R", [x], None)


def plus(x):
    return ("re.+", "R", [x], None)


def opt(x):
    return ("re.opt", "R", [x], None)


def union(*xs):
    return ("re.union", "R", list(xs), None) if len(xs) > 1 else xs[0]


def concat(*xs):
    return ("re.++", "R", list(xs), None) if len(xs) > 1 else xs[0]


class RGen:
    def __init__(self, rng):
        self.r = rng

    def D(self):
        return str(self.r.randint(0, 9))

    def single(self):
        return lit(self.D())

    def range(self):
        a, b = sorted([self.r.randint(0, 9), self.r.randint(0, 9)])
        return rng_(str(a), str(b))

    def zeroes(self):
        return self.r.choice([star, plus])(lit("0"))

    def full(self):
        return self.r.choice([star, plus])(rng_("0", "9"))

    def pm(self):
        return lit(self.r.choice("+-"))

    def optpm(self):
        x = self.r.random()
        return [] if x < 0.4 else [opt(self.pm())] if x < 0.7 else [self.pm()]

    def seqzeroes(self):
        return [self.r.choice([self.zeroes(), lit("0")]) for _ in range(self.r.randint(1, 2))]

    def onenine(self):
        return self.r.choice([rng_("0", "9"), rng_("1", "9")])

    def firstunion(self):
        return union(*[self.r.choice([self.pm(), self.zeroes(), lit("0")]) for _ in range(self.r.randint(2, 3))])

    def regex(self, d):
        r = self.r
        x = r.random()
        if d == 0 or x < 0.25:
            return r.choice([self.single, self.range, self.zeroes, self.full])()
        if x < 0.45:
            return union(*[self.regex(d - 1) for _ in range(r.randint(2, 3))])
        k = r.random()
        if k < 0.3:
            parts = self.optpm() + (self.seqzeroes() if r.random() < 0.5 else []) + [self.onenine(), self.full()]
        elif k < 0.6:
            parts = self.optpm() + self.seqzeroes() + [self.regex(d - 1)]
        elif k < 0.8:
            parts = [self.firstunion(), self.onenine(), self.full()]
        else:
            parts = [self.firstunion(), self.regex(d - 1)]
        return concat(*parts)

    def outside(self, d):
        """shapes just outside the documented grammar"""
        r = self.r
        x = r.random()
        if x < 0.2:
            return concat(self.regex(d), self.regex(d))
        if x < 0.35:
            return star(self.regex(d))
        if x < 0.5:
            return concat(self.single(), self.pm(), self.single())
        if x < 0.65:
            return union(lit("a"), self.regex(d))
        if x < 0.8:
            return concat(self.range(), self.range())
        if x < 0.9:
            return opt(self.regex(d))
        return rng_(str(r.randint(5, 9)), str(r.randint(0, 4)))


def has_minus(t):
    return (t[0] == "sconst" and "-" in t[3]) or any(has_minus(c) for c in t[2])


def sign_after_first(t, first=True):
    """a +/- literal that is not the first element of its concatenation"""
    if t[0] == "re.++":
        for i, c in enumerate(t[2]):
            if i > 0 and has_sign(c):
                return True
            if sign_after_first(c):
                return True
        return False
    return any(sign_after_first(c) for c in t[2])


def has_full(t):
    return (t[0] in ("re.*", "re.+") and t[2][0][0] == "re.range" and t[2][0][2][0][3] == "0" and t[2][0][2][1][3] == "9") or any(has_full(c) for c in t[2])


def has_sign(t):
    return (t[0] == "sconst" and t[3] in "+-" and t[3] != "") or any(has_sign(c) for c in t[2])


def judge_intervals(ctx, t, outside=False):
    from isla.z3_helpers import numeric_intervals_from_regex
    from returns.maybe import Nothing
    ctx.ev()
    wit = {"kind": "intervals", "regex": t}
    st, res = ctx.guarded(numeric_intervals_from_regex, SA.to_z3(t), timeout=20)
    if st == "watchdog":
        return ctx.inconclusive("watchdog")
    if st == "exc":
        return ctx.violation(None, f"numeric_intervals_from_regex raises {type(res).__name__}: {str(res)[:80]}", wit)
    if res == Nothing:
        ctx.count("nothing")
        return ctx.held(("nothing", json.dumps(t)))
    ivs = [tuple(x) for x in res.unwrap()]
    wit["intervals"] = ivs
    pat = re.compile(R5.topy(t))
    vals = R5.int_values(pat, 4)
    inside = lambda v: any((a <= v or a == -MAXS) and (v <= b or b == MAXS) for a, b in ivs)
    bad1 = sorted(v for v in vals if not inside(v))[:4]
    samples, outs = set(), set()
    for a, b in ivs:
        for v in (a, a + 1, b, b - 1, 0, 1, -1, 5, -5, 10, -10, 99, 100, -100, 12345, -12345, 10 ** 9, -10 ** 9):
            if a <= v <= b and abs(v) <= 10 ** 9:
                samples.add(v)
        for v in (a - 1, b + 1):
            if abs(v) <= 10 ** 9 and not inside(v):
                outs.add(v)
    bad2 = sorted(v for v in samples if not R5.representable(pat, v))[:4]
    bad3 = sorted(v for v in outs if R5.representable(pat, v))[:4]
    if bad1 or bad2 or bad3:
        key = None
        if not bad1 and not bad3 and bad2:
            allbad = [v for v in samples if not R5.representable(pat, v)]
            if has_full(t) and all(v != 0 and R5.representable(pat, -v) and any(a <= v <= b and MAXS in (-a, b) for a, b in ivs) for v in allbad):
                # [0-9]* / [0-9]+ is mapped to the sign-symmetric (-maxsize, maxsize): every unmatched member is the mirror
                # image of a matched one and lies in an interval with an infinite bound
                key = KF_FULL
            elif sign_after_first(t):
                key = KF_SIGNPAD
        if outside and key is None:
            # outside the documented recognised shape: the property's domain ends here; recorded, not judged
            ctx.count("outside_shape_some_but_wrong")
            return ctx.inconclusive("outside-documented-shape")
        return ctx.violation(key, f"intervals {ivs} vs regex: matched-but-outside {bad1 + bad3}, inside-but-unmatched {bad2}", wit)
    ctx.count("intervals_judged")
    ctx.held(("iv", json.dumps(t)), sample={"regex": SA.to_z3(t).sexpr().replace("\n", " ")[:160], "intervals": [list(map(str, i)) for i in ivs],
                                            "matched_values_checked": len(vals), "members_sampled": len(samples)})


def judge_compress(ctx, parts):
    import z3
    from isla.z3_helpers import compress_concatenation_elements
    ctx.ev()
    wit = {"kind": "compress", "parts": parts}
    zp = [SA.to_z3(p) for p in parts]
    st, res = ctx.guarded(compress_concatenation_elements, zp, timeout=20)
    if st == "watchdog":
        return ctx.inconclusive("watchdog")
    if st == "exc":
        return ctx.violation(None, f"compress_concatenation_elements raises {type(res).__name__}: {str(res)[:80]}", wit)
    before = z3.Concat(*zp) if len(zp) > 1 else zp[0]
    after = z3.Concat(*res) if len(res) > 1 else (res[0] if res else z3.Re(""))
    alpha = "".join(sorted({c for p in parts for n in walk(p) if n[0] == "sconst" for c in n[3]})) or "a"
    pat = re.compile(R5.topy(concat(*parts)))
    from islamon.ref import z3oracle as R4
    diff = None
    for s in R5.strings(5 if len(alpha) <= 3 else 4, alpha[:4]):
        a = bool(pat.fullmatch(s))
        b = R4.truth(z3.InRe(z3.StringVal(s), after), 3000)
        if b is None:
            continue
        if a != b:
            diff = s
            break
    if diff is not None:
        return ctx.violation(None, f"compressed concatenation differs on {diff!r}: {[str(x) for x in res]}", {**wit, "compressed": [str(x) for x in res]})
    ctx.count("compressions_judged")
    ctx.held(("cp", json.dumps(parts)), sample={"parts": [SA.to_z3(p).sexpr() for p in parts], "compressed": [str(x) for x in res]})


def walk(t):
    yield t
    for c in t[2]:
        yield from walk(c)


def run(ctx):
    rng = ctx.rng
    g = RGen(rng)
    while ctx.running():
        x = rng.random()
        if x < 0.6:
            t = g.regex(rng.randint(0, 3))
            st, v = ctx.guarded(judge_intervals, ctx, t, timeout=30)
            if st == "watchdog":
                ctx.inconclusive("watchdog")
            elif st == "exc":
                raise v
        elif x < 0.75:
            try:
                judge_intervals(ctx, g.outside(rng.randint(0, 2)), outside=True)
            except NotImplementedError:
                pass
        else:
            base = [rng.choice([lit("a"), lit("b"), rng_("0", "9"), lit("ab"), union(lit("a"), lit("b"))]) for _ in range(2)]
            parts = []
            for _ in range(rng.randint(1, 5)):
                b = rng.choice(base)
                parts.append(rng.choice([b, star(b), plus(b), b, opt(b) if rng.random() < 0.2 else b]))
            st, v = ctx.guarded(judge_compress, ctx, parts, timeout=60)
            if st == "watchdog":
                ctx.inconclusive("watchdog")
            elif st == "exc":
                raise v


def replay(ctx, w):
    def fix(t):
        return (t[0], t[1], [fix(c) for c in t[2]], t[3])
    if w["kind"] == "intervals":
        judge_intervals(ctx, fix(w["regex"]))
    else:
        judge_compress(ctx, [fix(p) for p in w["parts"]])
