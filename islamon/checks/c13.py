"""C13: every insert_tree result is valid, keeps all original nodes (id + label) and contains the inserted tree."""
import json, random, traceback
from islamon.ref.grammar import G, nodes, lab, kids, to_list, to_plain, is_nt
from islamon.gen import grammars as GG

SPEC = {
    "quick": {"shards": 16, "budget_s": 45, "timeout_s": 220},
    "thorough": {"shards": 16, "budget_s": 800, "timeout_s": 1500},
    "dash_O_odd_shards": True,
    "rule": "case = (grammar with a recursive nonterminal, host tree open or closed, inserted tree = bare nonterminal / open "
            "prefix / small closed tree, subset of the three insertion methods, max_num_solutions in {1,5,50,None}); every "
            "returned tree is judged: R1-valid with the host's root label, every host node present with the same id and label, "
            "a node with the inserted tree's id whose subtree contains the inserted tree (same labels, shape and ids at its expanded nodes; its open leaves may be refined). Odd shards run under python -O (ISLa's "
            "own asserts off: an invalid candidate is returned instead of raising); with asserts on an AssertionError out of "
            "existential_helpers.py is the same violation. A slice of the budget runs ISLa's solver on existential constraint families with insert_tree wrapped and judges the calls the solver itself makes (in situ). distinct = distinct (grammar, host shape, inserted label, methods)",
    "minimum": {"quick": {"calls": 800, "results_judged": 3000, "calls_with_results": 300, "results_judged_under_O": 800, "results_judged_in_situ": 15},
                "thorough": {"calls": 12000, "results_judged": 80000, "results_judged_under_O": 20000}},
    "assumptions": ["R1 validity; ids unique in every generated host/inserted tree"],
}

KF_EPS_SLOT = "C13:inserted-tree:closed-epsilon-node-used-as-slot"
KF_CTX = "C13:insert_trees:rewrites-inserted-tree"


def only_closed_eps_slots_differ(a, b):
    """a: inserted tree (label, children, id), b: what the result holds at its id. True iff they differ only at nodes
    of `a` that are closed epsilon expansions in the parser encoding (nonterminal with children == ())"""
    if a == b:
        return True
    if is_nt(a[0]) and a[1] == () and a[0] == b[0]:
        return True          # the closed-epsilon node was treated like an open leaf and replaced
    if a[1] is None and a[0] == b[0]:
        return True          # open leaves may be refined
    if a[0] != b[0] or a[2] != b[2] or a[1] is None or b[1] is None or len(a[1]) != len(b[1]):
        return False
    return all(only_closed_eps_slots_differ(x, y) for x, y in zip(a[1], b[1]))


def contains_prefix(a, b, ctx):
    """a: inserted tree, b: subtree of the result at a's root id. None if b contains a: same labels and shape at every
    expanded node of a (ids retained there); an *open* leaf of a may be refined by any subtree with the same label."""
    if a[0] != b[0]:
        return f"label {a[0]} became {b[0]}"
    if a[1] is None:
        if a[2] != b[2]:
            ctx.count("inserted_open_leaf_id_replaced")
        return None
    if a[2] != b[2]:
        return f"node id {a[2]} ({a[0]}) replaced by id {b[2]}"
    if b[1] is None or len(a[1]) != len(b[1]):
        return f"children of {a[0]} (id {a[2]}) changed"
    for x, y in zip(a[1], b[1]):
        d = contains_prefix(x, y, ctx)
        if d:
            return d
    return None


INS_GRAMMARS = ["assgn", "assgn2", "nest", "expr", "eps", "leftrec", "centre", "nestlist", "numeral", "nullchain"]


def judge(ctx, gname, g, m, host_l, ins_l, methods, maxsol, graph=None):
    from isla.existential_helpers import insert_tree
    from isla.helpers import canonical
    from islamon.bridge import to_dt
    import grammar_graph.gg as gg
    host = to_dt(host_l)
    ins = to_dt(ins_l)
    graph = graph or gg.GrammarGraph.from_grammar(g)
    ctx.ev()
    ctx.count("calls")
    wit = {"grammar": g, "host": to_list(host), "insert": to_list(ins), "methods": methods, "max": maxsol, "dash_O": ctx.optimized}
    st, res = ctx.guarded(lambda: list(insert_tree(canonical(g), ins, host, graph=graph, max_num_solutions=maxsol, methods=methods)), timeout=20)
    if st == "exc" and not isinstance(res, RecursionError):
        tb = traceback.extract_tb(res.__traceback__)
        # ISLa's own validity check fired: either its assert, or grammar_graph raising while the assert's argument is computed
        if any(fr.filename.endswith("existential_helpers.py") and "tree_is_valid" in (fr.line or "") for fr in tb):
            # ISLa's own validity assert fired. Decide with R1 whether the candidate really is invalid: repeat the call with
            # that assert neutralised (what python -O does) and judge what is returned.
            ctx.count("own_validity_assert_fired")
            orig_valid = gg.GrammarGraph.tree_is_valid
            gg.GrammarGraph.tree_is_valid = lambda self, t: True
            try:
                st, res = ctx.guarded(lambda: list(insert_tree(canonical(g), ins, host, graph=graph, max_num_solutions=maxsol, methods=methods)), timeout=20)
            finally:
                gg.GrammarGraph.tree_is_valid = orig_valid
            wit["own_assert_neutralised"] = True
    if st == "watchdog":
        return ctx.inconclusive("watchdog")
    if st == "exc":
        tb = traceback.extract_tb(res.__traceback__)
        if isinstance(res, AssertionError) and tb and tb[-1].filename.endswith("existential_helpers.py"):
            line = tb[-1].line or ""
            return ctx.violation(None, f"insert_tree built a candidate that fails its own check ({tb[-1].name}: {line.strip()[:70]})", wit)
        if isinstance(res, RecursionError):
            return ctx.inconclusive("recursion-limit")
        from islamon.worker import exc_site
        ctx.count("other_exception:" + ":".join(exc_site(res)))
        return ctx.inconclusive("other-exception")
    judge_results(ctx, gname, g, m, host, ins, res, methods, maxsol, wit, graph)


def judge_results(ctx, gname, g, m, host, ins, res, methods, maxsol, wit, graph, insitu=False):
    from isla.existential_helpers import insert_tree
    from isla.helpers import canonical
    if res:
        ctx.count("calls_with_results")
    host_nodes = [(n.id, lab(n)) for _, n in nodes(host)]
    ins_plain = to_plain(ins, with_id=True)
    for r in res:
        key = None
        why = m.valid_tree(r, lab(host), allow_open=True)
        if not why:
            ids = {}
            for _, n in nodes(r):
                ids.setdefault(n.id, n)
            for i, l in host_nodes:
                if i not in ids:
                    why = f"host node id {i} ({l}) is missing"
                    break
                if lab(ids[i]) != l:
                    why = f"host node id {i} changed label {l} -> {lab(ids[i])}"
                    break
            if not why:
                n = ids.get(ins.id)
                if n is None:
                    why = "inserted tree's root id not present"
                else:
                    got = to_plain(n, with_id=True)
                    d = contains_prefix(ins_plain, got, ctx)
                    if d:
                        why = "subtree at the inserted tree's id does not contain the inserted tree: " + d
                        if only_closed_eps_slots_differ(ins_plain, got):
                            key = KF_EPS_SLOT
                        elif methods & 6:
                            # self embedding and context addition both go through insert_trees/connect_trees, which re-expand
                            # nodes of the inserted tree to make room for the host subtree; direct embedding alone must not
                            key = KF_CTX
        if why:
            return ctx.violation(key, f"insert_tree result{' [in situ, called by the solver]' if insitu else ''}: {why}" + (" [python -O]" if ctx.optimized else ""),
                                 {**wit, "result": to_list(r)})
        ctx.count("results_judged_in_situ" if insitu else "results_judged")
        if ctx.optimized:
            ctx.count("results_judged_under_O")
    ctx.held((gname, json.dumps(to_plain(host))[:300], lab(ins), methods, maxsol, insitu),
             sample={"host": host.to_string(show_open_leaves=True), "insert": ins.to_string(show_open_leaves=True), "methods": methods, "in_situ": insitu,
                     "results": [r.to_string(show_open_leaves=True) for r in res[:3]], "n_results": len(res)} if res else None)


def insitu_slice(ctx, rng):
    """insert_tree calls made by the solver itself on existential constraints"""
    from islamon import insitu
    fam, gname, g, log = insitu.solver_workload(ctx, rng, ["insert_tree"], families={"defuse-mexpr", "exists-mexpr-eq", "exists-eq-literal", "nth", "exists-inside",
                                                                                      "eq-two-nodes", "eps-mexpr", "int-eq-exists", "int-sum", "conj"})
    m = G(g)
    ctx.ev()
    for tree, in_tree, res, methods, maxsol in log["insert_tree"][:40]:
        ctx.count("calls_in_situ")
        wit = {"grammar": g, "host": to_list(in_tree), "insert": to_list(tree), "methods": methods, "max": maxsol, "dash_O": ctx.optimized, "in_situ_family": fam}
        judge_results(ctx, gname, g, m, in_tree, tree, res, methods, maxsol, wit, None, insitu=True)


def run(ctx):
    import grammar_graph.gg as gg
    from islamon.bridge import cut
    rng = ctx.rng
    graphs = {}
    while ctx.running():
        if rng.random() < 0.25:
            insitu_slice(ctx, rng)
            continue
        if rng.random() < 0.75:
            gname = rng.choice(INS_GRAMMARS)
            g = GG.FEATURE[gname]
        else:
            gname, g = "random", GG.random_grammar(rng)
            if not GG.recursive_nts(g):
                continue
        m = G(g)
        key = json.dumps(g, sort_keys=True)
        if key not in graphs:
            graphs[key] = gg.GrammarGraph.from_grammar(g)
        for _ in range(4):
            host = m.random_tree(rng, budget=rng.choice([2, 5, 10, 18]), eps_style=rng.choice(["empty", "fuzzer"]))
            if rng.random() < 0.5:
                host = cut(host, rng, ncuts=rng.choice([1, 2, 3]))
            nt = rng.choice([n for n in m.cg if n != "<start>"] or ["<start>"])
            x = rng.random()
            if x < 0.4:
                ins = [nt, None]
            elif x < 0.7:
                ins = m.random_tree(rng, start=nt, budget=rng.choice([1, 3, 6]))
            else:
                ins = cut(m.random_tree(rng, start=nt, budget=rng.choice([3, 8])), rng, ncuts=rng.choice([1, 2]))
            methods = rng.randint(1, 7)
            maxsol = rng.choice([1, 5, 50, None])
            judge(ctx, gname, g, m, host, ins, methods, maxsol, graphs[key])


def replay(ctx, w):
    g = w["grammar"]
    judge(ctx, "replay", g, G(g), w["host"], w["insert"], w["methods"], w["max"])
