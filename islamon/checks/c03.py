"""C03: evaluate()/ISLaSolver.check() on closed trees vs the reference semantics R2."""
import json, random
from islamon.ref.grammar import G, nodes, lab, kids, to_list, is_nt, tstr
from islamon.ref import semantics as R2
from islamon.gen import grammars as GG
from islamon.gen.formulas import FGen, unused_quantified_vars, uses

SPEC = {
    "quick": {"shards": 16, "budget_s": 55, "timeout_s": 260},
    "thorough": {"shards": 16, "budget_s": 900, "timeout_s": 1600},
    "rule": "case = (grammar, formula in core concrete syntax printed from a reference AST, closed tree): random formulas with 1-3 "
            "quantifiers (with/without match expressions built from random derivation prefixes), all nine structural predicates, "
            "count, SMT atoms (=, str.len, str.++, str.in_re, prefix/suffix/contains, str.to.int arithmetic on numeral "
            "nonterminals), a share with numeric quantifiers (forces the quantifier-elimination strategy); trees of 5-120 nodes "
            "incl. wide nodes (29-60 children) and both epsilon encodings; each tree evaluated in both encodings. Judged: "
            "verdict == R2 verdict, never UNKNOWN without numeric quantifier, never an exception; ISLaSolver.check(tree) on a "
            "slice. distinct = distinct (grammar, formula skeleton, tree-size bucket, verdict)",
    "minimum": {"quick": {"judged": 1500, "distinct": 600, "verdict_true": 250, "verdict_false": 250, "strategy_legacy": 800,
                          "strategy_qe": 80, "with_match_expression": 150, "wide_trees": 15, "via_check": 100, "arith_cases": 100},
                "thorough": {"judged": 40000, "distinct": 8000, "strategy_qe": 2000, "with_match_expression": 4000}},
    "assumptions": ["R2 (islamon/ref/semantics.py): transcription of the 'Semantics' section of islaspec.rst; abstains on ambiguous "
                    "match-expression bindings, undocumented predicate arguments (consecutive on non-leaves) and Z3-undecided atoms",
                    "R3/R4 for predicates and SMT atoms", "known deviations are attributed by mechanism-specific triggers and, where "
                    "cheap, by re-evaluating a repaired variant of the case"],
}

KF_FORALL_DROPPED = "C03:quantifier-dropped:empty-domain"
KF_TRIE = "C03:trie:child-index>=28"
KF_EPS = "C03:match-expression:epsilon-encoding"
KF_NUMQ = "C03:numeric-quantifier:non-numeral-witness"
KF_AFTER = "C03:pred:after-below"
KF_CONSEC = "C03:pred:consecutive"
KF_ARITY = "C03:smt:not_implemented_failure-arity"
KF_NEG = "C03:smtformula-neg:simplified-away-variable"

CORPUS = ["assgn", "assgn2", "nest", "expr", "eps", "leftrec", "centre", "nestlist", "numeral", "padnum", "nullchain", "multichar"]


def isla_eval(ctx, text, tree, g, via_check=False):
    from isla.evaluator import evaluate
    from isla.isla_predicates import STANDARD_STRUCTURAL_PREDICATES as SP, STANDARD_SEMANTIC_PREDICATES as MP

    def go():
        if via_check:
            from isla.solver import ISLaSolver, UnknownResultError
            try:
                return ISLaSolver(g, text, structural_predicates=SP, semantic_predicates=MP).check(tree)
            except UnknownResultError:
                return "UNKNOWN"
        r = evaluate(text, tree, g, structural_predicates=SP, semantic_predicates=MP)
        return True if r.is_true() else False if r.is_false() else "UNKNOWN"
    st, r = ctx.guarded(go, timeout=25)
    if st == "watchdog":
        return None
    if st == "exc":
        from islamon.worker import exc_site
        return "raises " + ":".join(exc_site(r)) + (" [not_implemented_failure]" if "not_implemented_failure" in str(r) else "") + (
            " [smt-neg-symbol-count]" if "does not match actual number of symbols" in str(r) else "")
    return r


def classify(ctx, f, g, tree_l, got, ref, text):
    """mechanism key for a known deviation, or None"""
    from islamon.bridge import to_dt, eps_reencode
    if isinstance(got, str) and "not_implemented_failure" in got:
        return KF_ARITY
    if isinstance(got, str) and "smt-neg-symbol-count" in got:
        return KF_NEG
    wide = any(kids(n) and len(kids(n)) > 28 for _, n in nodes(tree_l))
    if wide:
        # counterfactual: the same formula on the tree with every node's children beyond index 27 pruned is what the trie sees
        if any(q[0] in ("forall", "exists") for q in R2.subformulas(f)):
            return KF_TRIE
    if any(q[0] in ("forall", "exists") for q in R2.subformulas(f)):
        # repaired twin: with the drop-the-quantifier shortcut of ForallFormula.substitute_expressions patched out, does ISLa
        # agree with the specification?
        from islamon import patches
        with patches.no_forall_drop():
            alt = isla_eval(ctx, text, to_dt(tree_l), g)
        if alt == ref:
            return KF_FORALL_DROPPED
    if any(q[0] == "int_q" for q in R2.subformulas(f)) and got in (True, False):
        # emulation on the reference side: with the numeric variable ranging over all integers (ISLa's current reading,
        # witnesses such as -1 have no numeral), does the specification's evaluator give ISLa's verdict?
        R2.INT_DOMAIN_ALL = True
        try:
            alt = R2.evaluate_ref(f, to_dt(tree_l))
        finally:
            R2.INT_DOMAIN_ALL = False
        if alt == got:
            return KF_NUMQ
    if any(q[0] in ("forall", "exists") and q[4] for q in R2.subformulas(f)):
        # epsilon encoding: does ISLa agree with R2 on the parser's encoding of the same derivation?
        alt = isla_eval(ctx, text, to_dt(eps_reencode(tree_l, "empty")), g)
        if alt == ref and eps_reencode(tree_l, "empty") != tree_l:
            return KF_EPS
        # both listed mechanisms at once (an unused inner quantifier below a match expression over an epsilon-expanded node):
        # neither repair alone restores the specification's verdict, both together do
        from islamon import patches
        with patches.no_forall_drop():
            alt = isla_eval(ctx, text, to_dt(eps_reencode(tree_l, "empty")), g)
        if alt == ref and eps_reencode(tree_l, "empty") != tree_l:
            ctx.count("classified_by_two_repairs")
            return KF_EPS
    if uses(f, "after"):
        from islamon.checks.c04 import buggy_after
        import islamon.ref.predicates as R3
        orig = R3.before
        # repaired twin in the reference direction: evaluate R2 with ISLa's current reading of `after`
        saved = R3.pred_eval

        def pe(name, root, args):
            if name == "after":
                return buggy_after(args[0], args[1])
            return saved(name, root, args)
        R3.pred_eval = pe
        try:
            alt = R2.evaluate_ref(f, to_dt(tree_l))
        finally:
            R3.pred_eval = saved
        if alt == got:
            return KF_AFTER
    return None


def judge(ctx, gname, g, f, tree_l, via_check=False):
    from islamon.bridge import to_dt, eps_reencode
    text = R2.pr(f)
    tree = to_dt(tree_l)
    ctx.ev()
    ref = R2.evaluate_ref(f, tree)
    wit = {"grammar": g, "formula": text, "ast": f, "tree": tree_l, "via_check": via_check}
    if isinstance(ref, tuple):
        return ctx.inconclusive("R2-abstains:" + ref[1])
    got = isla_eval(ctx, text, tree, g, via_check)
    if got is None:
        return ctx.inconclusive("watchdog")
    numq = R2.has_numeric_quantifier(f)
    ctx.count("strategy_qe" if numq else "strategy_legacy")
    if got == "UNKNOWN" and numq:
        return ctx.inconclusive("unknown-with-numeric-quantifier")
    if got == ref:
        ctx.count("verdict_true" if ref else "verdict_false")
        if via_check:
            ctx.count("via_check")
        if any(q[0] in ("forall", "exists") and q[4] for q in R2.subformulas(f)):
            ctx.count("with_match_expression")
        if any(kids(n) and len(kids(n)) > 28 for _, n in nodes(tree_l)):
            ctx.count("wide_trees")
        sk = R2.skeleton(f)
        ctx.held((gname, sk, len(list(nodes(tree_l))) // 10, ref), sample={"grammar": gname, "formula": text, "tree": str(tree)[:80], "verdict": ref})
        # the other epsilon encoding of the same derivation must get the same verdict
        for style in ("empty", "fuzzer"):
            alt_l = eps_reencode(tree_l, style)
            if alt_l != tree_l:
                got2 = isla_eval(ctx, text, to_dt(alt_l), g)
                if got2 is not None and got2 != got and not (got2 == "UNKNOWN" and numq):
                    key = KF_EPS if any(q[0] in ("forall", "exists") and q[4] for q in R2.subformulas(f)) else None
                    ctx.violation(key, f"verdict {got} on the tree as given but {got2} on the {style} encoding of the same derivation",
                                  {**wit, "reencoded": alt_l})
        return
    key = classify(ctx, f, g, tree_l, got, ref, text)
    ctx.violation(key, f"{'check' if via_check else 'evaluate'} = {got}, specification = {ref}", wit)


def gen_case(ctx, rng):
    x = rng.random()
    if x < 0.07:
        gname = rng.choice(["wide31", "wide45", "wide60"])
    elif x < 0.8:
        gname = rng.choice(CORPUS)
    else:
        gname = "random"
    g = GG.FEATURE[gname] if gname != "random" else GG.random_grammar(rng, max_nts=4)
    m = G(g)
    gen = FGen(g, rng, m)
    f = gen.formula(rng.randint(1, 3), {"start": "<start>"})
    trees = [m.random_tree(rng, budget=rng.choice([3, 8, 15, 30, 60])) for _ in range(3)]
    return gname, g, f, trees


def arith_case(ctx, rng):
    """integer arithmetic atoms over numeral subtrees (div / mod / * / - with negative intermediate values), with the
    right-hand side aimed at the value one numeral of the tree actually yields, so that TRUE and FALSE both occur"""
    gname = rng.choice(["numeral", "padnum", "leftrec", "expr"])
    g = GG.FEATURE[gname]
    m = G(g)
    gen = FGen(g, rng, m)
    if not gen.numeral_nts:
        return gen_case(ctx, rng)
    nt = rng.choice(gen.numeral_nts)
    trees = [m.random_tree(rng, budget=rng.choice([3, 8, 15, 30])) for _ in range(3)]
    vals = [int(tstr(n)) for t in trees for _, n in nodes(t) if lab(n) == nt and kids(n) is not None and tstr(n).isdigit()] or [0]
    n = rng.choice(vals)
    op, k1, k2 = rng.choice(["div", "div", "mod", "*"]), rng.choice([0, 1, 5, 10, 50, 200, n + 1, n + 7]), rng.choice([2, 3, 7])
    val = {"div": (n - k1) // k2, "mod": (n - k1) % k2, "*": (n - k1) * k2}[op]     # k2 > 0: floor division is SMT-LIB div
    rhs = val + rng.choice([0, 0, 0, 1, -1])
    lit = str(rhs) if rhs >= 0 else f"(- 0 {-rhs})"
    atom = ("smt", f"({rng.choice(['=', '=', '<=', '>'])} ({op} (- (str.to.int x) {k1}) {k2}) {lit})", ["x"])
    if rng.random() < 0.3:
        atom = ("not", atom)
    f = (rng.choice(["forall", "exists"]), nt, "x", "start", None, atom)
    if rng.random() < 0.25:
        f = ("and", f, ("smt", "(>= (str.len start) 0)", ["start"]))
    ctx.count("arith_cases")
    return gname, g, f, trees


def run(ctx):
    rng = ctx.rng
    while ctx.running():
        gname, g, f, trees = arith_case(ctx, rng) if rng.random() < 0.06 else gen_case(ctx, rng)
        for t in trees:
            if len(list(nodes(t))) > 160:
                continue
            st, v = ctx.guarded(judge, ctx, gname, g, f, t, rng.random() < 0.12, timeout=90)
            if st == "watchdog":
                ctx.inconclusive("watchdog")
            elif st == "exc":
                raise v


def replay(ctx, w):
    def fix(x):
        if isinstance(x, dict):
            return {k: fix(v) for k, v in x.items()}
        return tuple(fix(y) for y in x) if isinstance(x, list) else x
    f = fix(w["ast"])
    judge(ctx, "replay", w["grammar"], f, w["tree"], w.get("via_check", False))
