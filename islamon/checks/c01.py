"""C01: every tree returned by ISLaSolver.solve() is closed, grammar-valid, a member of the language and satisfies the constraint."""
import json, random
from islamon.ref.grammar import G, nodes, kids, lab, tstr, to_list
from islamon.ref import semantics as R2
from islamon.gen import grammars as GG, solvercases as SC

SPEC = {
    "quick": {"shards": 16, "budget_s": 60, "timeout_s": 300},
    "thorough": {"shards": 16, "budget_s": 1000, "timeout_s": 1800},
    "rule": "case = one solver instance (constraint family x grammar x solver settings x PRNG seed): ~30 documented constraint "
            "shapes (def-use with match expressions, exists+match expression, literal equalities, count literal / exists int, "
            "length, numeric str.to.int ranges and sums, nth, level-style disjunctions, regex membership, epsilon match "
            "expressions, conjunctions/disjunctions) plus random formulas at a lower rate; settings drawn from free/SMT "
            "instantiation limits {1,3,10}, optimized Z3 queries on/off, unique-trees on/off, all tree-insertion-method "
            "subsets, insertion results {1,5}; solve() is called until 12 (quick) / 40 (thorough) trees, StopIteration or a "
            "timeout; EVERY returned tree is judged by R1 (closed by own walk, valid derivation, chart membership of its "
            "string) and R2 (satisfies the reference AST the text was printed from). distinct = distinct (family, grammar, "
            "settings, solution string)",
    "minimum": {"quick": {"trees_judged": 300, "solvers_with_solutions": 60, "families_with_solutions": 12},
                "thorough": {"trees_judged": 6000, "solvers_with_solutions": 500, "families_with_solutions": 22}},
    "assumptions": ["R1/R2 reference models; R2 abstentions (ambiguous match, Z3 undecided) are inconclusive",
                    "solutions are judged against the constraint as given, not against solver-internal states",
                    "exceptions out of solve() are C02's subject and only counted here"],
}

KF_PAIRWISE = "C01:solver-unsound:pairwise-disequality-between-two-universals"


def pairwise_disequality(f):
    """forall x: forall y (same type, both in start): body containing a negated equality between x and y"""
    for q in R2.subformulas(f):
        if q[0] == "forall" and q[4] is None and q[5][0] == "forall" and q[5][1] == q[1] and q[5][4] is None:
            x, y = q[2], q[5][2]
            for a in R2.subformulas(q[5][5]):
                if a[0] == "not" and a[1][0] == "smt" and set(a[1][2]) == {x, y} and a[1][1].startswith("(="):
                    return True
    return False


def classify_unsound(ctx, f, g, t, text, fam=None):
    """(key, explanation suffix). First ask ISLa's own evaluator about the returned tree: if it accepts the tree the deviation
    is the evaluator's (C03 mechanisms, which the solver shares); if it rejects it too, the solver itself is unsound."""
    from islamon.checks import c03
    from islamon.bridge import from_dt
    got = c03.isla_eval(ctx, text, t, g)
    if got is True:
        k3 = c03.classify(ctx, f, g, from_dt(t), True, False, text)
        return (k3.replace("C03:", "C01:evaluator-shares:") if k3 else None), " (ISLa's evaluate accepts the tree: evaluator-level deviation)"
    if got is False:
        sfx = " (ISLa's own evaluate rejects the tree as well)"
        if pairwise_disequality(f):
            return KF_PAIRWISE, sfx
        if fam == "random":
            # random formulas outside the documented shapes: tolerated classes, keyed by the feature involved. The named
            # families (documented constraint shapes) get no such allowance: any unsound solution there is new.
            subs = list(R2.subformulas(f))
            if any(q[0] == "forall" and q[4] for q in subs):
                return "C01:solver-unsound:random-formula:forall-with-match-expression", sfx
            if any(q[0] in ("count", "exists_int_count", "int_q") for q in subs):
                return "C01:solver-unsound:random-formula:count-or-numeric-quantifier", sfx
            inside = {q[2]: q[3] for q in subs if q[0] in ("forall", "exists")}
            for q in subs:
                if q[0] in ("forall", "exists") and q[4]:
                    for _mt, P in q[4][1]:
                        for v in P:
                            inside[v] = q[2]   # variables bound by a match expression lie inside the quantified tree

            def nested(a, b):
                while a in inside:
                    a = inside[a]
                    if a == b:
                        return True
                return False
            if any(q[0] == "smt" and any(nested(a, b) for a in q[2] for b in q[2]) for q in subs):
                return "C01:solver-unsound:random-formula:smt-atom-over-nested-trees", sfx
        return None, sfx
    return None, f" (ISLa's evaluate: {got})"


def run_solver(ctx, fam, gname, f, st, seed, ntrees, budget_s):
    g = GG.FEATURE[gname]
    m = G(g)
    text = R2.pr(f)
    ctx.ev()
    random.seed(seed)
    wit = {"family": fam, "grammar": gname, "constraint": text, "ast": f, "settings": st, "seed": seed}
    st_, solver = ctx.guarded(SC.make_solver, g, text, st, 10, timeout=30)
    if st_ != "ok":
        ctx.count("constructor_failed")
        return ctx.inconclusive("constructor-failed-or-watchdog")
    got = 0
    import time
    t0 = time.time()
    for k in range(ntrees):
        st_, t = ctx.guarded(solver.solve, timeout=max(2, budget_s - (time.time() - t0)))
        if st_ == "watchdog":
            ctx.inconclusive("solve-watchdog")
            break
        if st_ == "exc":
            if isinstance(t, (StopIteration, TimeoutError)):
                ctx.count("end_" + type(t).__name__)
            else:
                from islamon.worker import exc_site
                ctx.count("solve_raised:" + ":".join(exc_site(t)))
                ctx.inconclusive("solve-raised (C02's subject)")
            break
        got += 1
        why = None
        if any(kids(n) is None for _, n in nodes(t)):
            why = "solution has open leaves"
        if not why:
            why = m.valid_tree(t, "<start>", allow_open=False)
        s = tstr(t)
        if not why and len(s) <= 60 and not m.member(s):
            why = f"string {s!r} is not in the language (chart recognizer)"
        if not why and str(t) != s:
            why = "str(tree) differs from the concatenation of its terminal leaves"
        key = None
        if not why:
            ref = R2.evaluate_ref(f, t)
            if isinstance(ref, tuple):
                ctx.inconclusive("R2-abstains:" + ref[1])
                continue
            if ref is False:
                why = "solution violates the constraint under the specification's semantics"
                key, extra = classify_unsound(ctx, f, g, t, text, fam)
                why += extra
        if why:
            ctx.violation(key, f"solve() #{k + 1}: {why}", {**wit, "solution": s, "tree": to_list(t)})
            continue
        ctx.count("trees_judged")
        ctx.held((fam, gname, json.dumps(st, sort_keys=True), s), sample={"family": fam, "constraint": text[:160], "settings": st, "solution": s[:80], "k": k + 1})
    if got:
        ctx.count("solvers_with_solutions")
        ctx.count("fam:" + fam)
        ctx.fams.add(fam)


def run(ctx):
    rng = ctx.rng
    ctx.fams = set()
    ntrees = 12 if ctx.tier == "quick" else 40
    i = ctx.shard * 5
    while ctx.running():
        fams = SC.families(rng)
        i += 1
        # documented families in rotation (every shard starts elsewhere), so that a short run still visits all of them
        fam, gname, f = fams[i % len(fams)] if rng.random() < 0.85 else SC.random_family(rng)
        run_solver(ctx, fam, gname, f, SC.settings(rng), rng.randrange(10 ** 6), ntrees, 25)


def derive(counters):
    return {"families_with_solutions": sum(1 for k in counters if k.startswith("fam:"))}


def replay(ctx, w):
    def fix(x):
        if isinstance(x, dict):
            return {k: fix(v) for k, v in x.items()}
        return tuple(fix(y) for y in x) if isinstance(x, list) else x
    ctx.fams = set()
    run_solver(ctx, w["family"], w["grammar"], fix(w["ast"]), w["settings"], w["seed"], 12, 60)
