"""C12: fuzzer expansions keep the expanded prefix; mutations give closed valid trees with same root."""
import json, random
from islamon.ref.grammar import G, nodes, get, lab, kids, to_list, is_nt
from islamon.gen import grammars as GG
from islamon import patches

SPEC = {
    "quick": {"shards": 16, "budget_s": 45, "timeout_s": 200},
    "thorough": {"shards": 16, "budget_s": 700, "timeout_s": 1300},
    "rule": "expansion case = (grammar, open prefix of a random derivation incl. bare root / already closed / both epsilon "
            "encodings, fuzzer class and (min,max) nonterminal settings as ISLa uses them, PRNG seed); mutation case = "
            "(grammar, closed tree, min/max mutations, PRNG seed, strategy). distinct = distinct (grammar, input tree "
            "shape, settings, seed). Oracle: R1 validity, closedness by own walk, label/arity/id preservation at every "
            "path of the input.",
    "minimum": {"quick": {"expansions_judged": 3000, "mutations_judged": 300, "strategy_calls": 300, "expansions_judged_in_situ": 30, "mutation_inputs_with_non_start_root": 100},
                "thorough": {"expansions_judged": 60000, "mutations_judged": 5000}},
    "assumptions": ["R1 tree validity (islamon/ref/grammar.py)",
                    "'for every random choice' is sampled over PRNG seeds, not enumerated", "mutation inputs have at least one expanded node (a lone epsilon node is skipped)",
                    "Mutator.mutate on this venv raises through returns-0.29 API drift (known finding); the trees it "
                    "would return are judged in a second pass with a compatibility shim for returns.safe/Maybe.nothing"],
}

KF_DRIFT = "C12:mutate:returns-api-drift"


def check_expansion(m, inp, out, root):
    if any(kids(n) is None for _, n in nodes(out)):
        return "result still has open leaves"
    why = m.valid_tree(out, root, allow_open=False)
    if why:
        return "invalid tree: " + why
    for p, n in nodes(inp):
        o = out
        for i in p:
            ch = kids(o)
            if ch is None or i >= len(ch):
                return f"path {p} of the input no longer exists"
            o = ch[i]
        if lab(o) != lab(n):
            return f"label at {p} changed {lab(n)!r} -> {lab(o)!r}"
        if kids(n) is not None:
            if len(kids(o)) != len(kids(n)):
                return f"arity of expanded node at {p} changed"
            if getattr(n, "id", None) != getattr(o, "id", None):
                return f"id of expanded node at {p} changed"
    return None


def judge_expand(ctx, g, m, tree_l, cls, mn, mx, seed):
    from isla.fuzzer import GrammarFuzzer, GrammarCoverageFuzzer
    from islamon.bridge import to_dt
    ctx.ev()
    wit = {"kind": "expand", "grammar": g, "tree": tree_l, "cls": cls, "min": mn, "max": mx, "seed": seed}
    inp = to_dt(tree_l)
    random.seed(seed)
    C = GrammarCoverageFuzzer if cls == "cov" else GrammarFuzzer

    def go():
        return C(g, min_nonterminals=mn, max_nonterminals=mx).expand_tree(inp)
    st, out = ctx.guarded(go, timeout=20)
    if st == "watchdog":
        return ctx.inconclusive("watchdog")
    if st == "exc":
        if isinstance(out, RecursionError):
            return ctx.inconclusive("recursion-limit")
        return ctx.violation(None, f"expand_tree raises {type(out).__name__}: {str(out)[:80]}", wit)
    why = check_expansion(m, inp, out, lab(inp))
    if why:
        return ctx.violation(None, "expand_tree: " + why, {**wit, "out": to_list(out)})
    ctx.count("expansions_judged")
    ctx.held(("e", json.dumps(g, sort_keys=True), json.dumps(tree_l)[:400], cls, mn, mx, seed),
             sample={"kind": "expand", "input": inp.to_string(show_open_leaves=True), "output": str(out), "fuzzer": cls, "seed": seed})


def judge_mutate(ctx, g, m, tree_l, mn, mx, seed, strategy, behind):
    from isla.mutator import Mutator
    from islamon.bridge import to_dt
    ctx.ev()
    wit = {"kind": "mutate", "grammar": g, "tree": tree_l, "min": mn, "max": mx, "seed": seed, "strategy": strategy, "behind": behind}
    inp = to_dt(tree_l)
    random.seed(seed)

    def go():
        mu = Mutator(g, min_mutations=mn, max_mutations=mx)
        if strategy == "mutate":
            return mu.mutate(inp)
        r = getattr(mu, strategy)(inp)
        return r.value_or(None)

    if behind:
        with patches.returns_drift():
            st, out = ctx.guarded(go, timeout=20)
    else:
        st, out = ctx.guarded(go, timeout=20)
    if st == "watchdog":
        return ctx.inconclusive("watchdog")
    if st == "exc":
        if isinstance(out, RecursionError):
            return ctx.inconclusive("recursion-limit")
        if not behind and patches.is_returns_drift(out):
            return ctx.violation(KF_DRIFT, f"{strategy} raises {type(out).__name__}: {str(out)[:90]}", wit)
        return ctx.violation(None, f"{strategy} raises {type(out).__name__}: {str(out)[:90]}" + (" [behind returns-drift shim]" if behind else ""), wit)
    if strategy != "mutate":
        ctx.count("strategy_calls")
    if out is None:
        ctx.count("strategy_nothing")
        return
    why = None
    if any(kids(n) is None for _, n in nodes(out)):
        why = "result has open leaves"
    else:
        why = m.valid_tree(out, lab(inp), allow_open=False)
    if why:
        return ctx.violation(None, f"{strategy}: {why}" + (" [behind returns-drift shim]" if behind else ""), {**wit, "out": to_list(out)})
    ctx.count("mutations_judged")
    if behind:
        ctx.count("mutations_judged_behind_shim")
    ctx.held(("m", json.dumps(g, sort_keys=True), json.dumps(tree_l)[:400], mn, mx, seed, strategy, behind),
             sample={"kind": strategy, "input": str(inp), "output": str(out), "seed": seed, "behind_shim": behind})


def insitu_slice(ctx, rng):
    """fuzzer expansions requested by the solver itself (finish_unconstrained_trees, expand, repair)"""
    from islamon import insitu
    fam, gname, g, log = insitu.solver_workload(ctx, rng, ["expand_tree"], nsolve=3)
    m = G(g)
    ctx.ev()
    for inp, out in log["expand_tree"][:60]:
        why = check_expansion(m, inp, out, lab(inp))
        if why:
            ctx.violation(None, "expand_tree [in situ, called by the solver]: " + why, {"kind": "expand-in-situ", "grammar": g, "tree": to_list(inp), "out": to_list(out), "family": fam})
        else:
            ctx.count("expansions_judged_in_situ")
            ctx.held(("e-insitu", gname, inp.to_string(show_open_leaves=True)[:80]))


def run(ctx):
    from islamon.bridge import cut, eps_reencode
    rng = ctx.rng
    corpus = [g for n, g in GG.FEATURE.items()]
    while ctx.running():
        if rng.random() < 0.04:
            insitu_slice(ctx, rng)
            continue
        g = rng.choice(corpus) if rng.random() < 0.5 else GG.random_grammar(rng)
        m = G(g)
        for _ in range(6):
            closed = m.random_tree(rng, budget=rng.choice([1, 4, 10, 25]))
            r = rng.random()
            if r < 0.1:
                t = ["<start>", None]
            elif r < 0.2:
                t = closed
            else:
                t = cut(closed, rng, ncuts=rng.choice([1, 1, 2, 3]))
            for _s in range(3):
                mn, mx = rng.choice([(0, 10), (1, 6), (0, 30), (0, 10)])
                judge_expand(ctx, g, m, t, rng.choice(["cov", "plain"]), mn, mx, rng.randrange(10 ** 6))
            if rng.random() < 0.6:
                if rng.random() < 0.4:
                    # a closed tree rooted at some other nonterminal: the mutant must keep that root symbol
                    closed = m.random_tree(rng, start=rng.choice(list(m.cg)), budget=rng.choice([1, 3, 8]))
                    if not closed[1]:
                        ctx.count("degenerate_mutation_input_skipped")   # a lone epsilon node has nothing to mutate
                        continue
                    ctx.count("mutation_inputs_with_non_start_root")
                strat = rng.choice(["mutate", "mutate", "replace_subtree_randomly", "generalize_subtree", "swap_subtrees"])
                mn, mx = rng.choice([(1, 1), (2, 5)])
                seed = rng.randrange(10 ** 6)
                judge_mutate(ctx, g, m, closed, mn, mx, seed, strat, behind=False)
                judge_mutate(ctx, g, m, closed, mn, mx, seed, strat, behind=True)


def replay(ctx, w):
    g = w["grammar"]
    if w["kind"] == "expand":
        judge_expand(ctx, g, G(g), w["tree"], w["cls"], w["min"], w["max"], w["seed"])
    else:
        judge_mutate(ctx, g, G(g), w["tree"], w["min"], w["max"], w["seed"], w["strategy"], w["behind"])
