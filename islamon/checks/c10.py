"""C10: parser accepts exactly the language; trees faithful. Oracle: R1 chart recognizer."""
import itertools, json
from islamon.ref.grammar import G, tstr, to_list, is_nt, split_alt
from islamon.gen import grammars as GG

SPEC = {
    "quick": {"shards": 16, "budget_s": 55, "timeout_s": 200},
    "thorough": {"shards": 16, "budget_s": 900, "timeout_s": 1500},
    "rule": "case = (grammar, string, start nonterminal); strings = all words over the grammar's terminal alphabet up to "
            "length 4-6 (capped), yields of random derivations and single-edit mutants; grammars = feature corpus, random grammars and 'nullable forward chain' grammars (nonterminals nullable only through later rules, used side by side); distinct = distinct "
            "(grammar, string, nonterminal, entry point) triples judged against the independent span-chart recognizer; plus an "
            "in-situ slice: every EarleyParser.parse call ISLa makes itself while solving documented families (grammar, start "
            "symbol and text as the solver passed them) judged by the same recognizer",
    "minimum": {"quick": {"accepted": 5000, "rejected": 5000, "grammars_nullable": 10, "grammars_ambiguous": 5, "grammars_nullable_forward_chain": 8, "insitu_accepted": 10},
                "thorough": {"accepted": 20000, "rejected": 20000, "grammars_nullable": 30, "grammars_ambiguous": 30}},
    "assumptions": ["R1 span-chart recognizer (islamon/ref/grammar.py), cross-checked against brute-force derivation "
                    "enumeration in setup.sh", "<start> has exactly one alternative (documented restriction)",
                    "grammars with A =>+ A are excluded as the property states"],
}


def judge(ctx, g, m, s, nt, via, parser=None, solver=None):
    from isla.parser import EarleyParser
    ctx.ev()
    exp = m.member(s, nt)
    wit = {"grammar": g, "s": s, "nt": nt, "via": via}

    def run():
        if via == "earley":
            p = parser or EarleyParser(g)
            return list(itertools.islice(p.parse(s), 50))
        sol = solver
        t = sol.parse(s, nt, skip_check=True, silent=True)
        return [t]
    st, val = ctx.guarded(run, timeout=20)
    if st == "watchdog":
        ctx.inconclusive("watchdog")
        return
    if st == "exc":
        if isinstance(val, SyntaxError):
            if exp:
                ctx.violation(None, f"{via}: SyntaxError on a member of L({nt})", wit)
            else:
                ctx.count("rejected")
                ctx.held(("rej", json.dumps(g, sort_keys=True), s, nt, via))
        else:
            ctx.violation(None, f"{via}: raises {type(val).__name__} instead of answering: {str(val)[:100]}", wit)
        return
    if not exp:
        ctx.violation(None, f"{via}: accepts a non-member of L({nt})", wit)
        return
    if not val:
        ctx.violation(None, f"{via}: yields no tree for a member", wit)
        return
    for t in val:
        root = nt if via == "solver" else "<start>"
        why = m.valid_tree(t, root, allow_open=False)
        if why is None and tstr(t) != s:
            why = f"yield {tstr(t)!r} != input"
        if why:
            ctx.violation(None, f"{via}: unfaithful tree: {why}", {**wit, "tree": to_list(t)})
            return
    ctx.count("accepted")
    ctx.count("trees_checked", len(val))
    ctx.held(("acc", json.dumps(g, sort_keys=True), s, nt, via),
             sample={"grammar": g, "s": s, "nt": nt, "via": via, "member": True, "trees": len(val)})


def strings_for(ctx, g, m, maxlen, cap):
    rng = ctx.rng
    alpha = sorted({c for alts in g.values() for a in alts for x in split_alt(a) if not is_nt(x) for c in x})
    out = []
    total = sum(len(alpha) ** k for k in range(maxlen + 1))
    if total <= cap:
        for k in range(maxlen + 1):
            out.extend("".join(p) for p in itertools.product(alpha, repeat=k))
    else:
        out.append("")
        for _ in range(cap):
            out.append("".join(rng.choice(alpha) for _ in range(rng.randint(1, maxlen))))
    # members and near misses
    for _ in range(30):
        w = tstr(m.random_tree(rng, budget=rng.choice([3, 8, 20])))
        if len(w) <= 25:
            out.append(w)
            if w and alpha:
                i = rng.randrange(len(w))
                out.append(w[:i] + w[i + 1:])
                out.append(w[:i] + rng.choice(alpha) + w[i:])
                out.append(w[:i] + rng.choice(alpha) + w[i + 1:])
    return out


def insitu_slice(ctx, rng):
    """parser calls made by ISLa itself while solving (model values re-parsed under a nonterminal, the regex-vs-grammar
    assertion, match-expression grammars): whatever grammar and text the solver hands to EarleyParser.parse is judged by R1"""
    from islamon import insitu
    fam, gname, g0, log = insitu.solver_workload(ctx, rng, ["parse"], nsolve=3, random_share=0.3)
    models, seen = {}, set()
    for rec in log["parse"][:600]:
        if not ctx.running():
            break
        g, start, s = rec["grammar"], rec["start"], rec["text"]
        if not rec["advanced"] or not isinstance(s, str) or len(s) > 40:
            ctx.count("insitu_parse_not_judged")
            continue
        gk = json.dumps(g, sort_keys=True, default=str)
        sig = (gk, start, s)
        if sig in seen:
            continue
        seen.add(sig)
        if gk not in models:
            try:
                m = G(g)
                ok = start in m.cg and len(g.get(start, [])) == 1 and m.well_formed() and not m.derives_self()
            except Exception:
                m, ok = None, False
            models[gk] = m if ok else None
        m = models[gk]
        if m is None:
            ctx.count("insitu_parse_grammar_outside_domain")
            continue
        ctx.ev()
        st, exp = ctx.guarded(m.member, s, start, timeout=20)
        if st != "ok":
            ctx.inconclusive("R1-watchdog")
            continue
        wit = {"grammar": g, "s": s, "nt": start, "via": "in-situ", "family": fam}
        if rec["exc"] is not None:
            if exp:
                ctx.violation(None, f"in-situ ({fam}): SyntaxError on a member of L({start})", wit)
            else:
                ctx.count("insitu_rejected")
                ctx.held(("rej", "in-situ", gname, start, len(s)))
            continue
        if not exp:
            ctx.violation(None, f"in-situ ({fam}): accepts a non-member of L({start})", wit)
            continue
        bad = None
        for t in rec["trees"]:
            bad = m.valid_tree(t, start, allow_open=False)
            if bad is None and tstr(t) != s:
                bad = f"yield {tstr(t)!r} != input"
            if bad:
                break
        if bad:
            ctx.violation(None, f"in-situ ({fam}): unfaithful tree: {bad}", {**wit, "tree": to_list(t)})
            continue
        ctx.count("insitu_accepted")
        ctx.held(("acc", "in-situ", gname, start, len(s)), sample={"family": fam, "start": start, "s": s, "via": "in-situ"})


def run(ctx):
    from isla.parser import EarleyParser
    from isla.solver import ISLaSolver
    rng = ctx.rng
    corpus = list(GG.FEATURE.items())
    gi = 0
    while ctx.running():
        if gi >= len(corpus) and rng.random() < 0.12:
            insitu_slice(ctx, rng)
            continue
        if gi < len(corpus) and (gi % ctx.nshards) == ctx.shard % max(1, min(ctx.nshards, len(corpus))):
            name, g = corpus[gi]
        elif rng.random() < 0.25:
            name, g = "random", GG.nullable_chain_grammar(rng)
            ctx.count("grammars_nullable_forward_chain")
        else:
            name, g = "random", GG.random_grammar(rng, max_nts=rng.choice([3, 4, 6]))
        gi += 1
        if name.startswith("wide"):
            continue
        m = G(g)
        ctx.count("grammars")
        if m.nullable():
            ctx.count("grammars_nullable")
        maxlen = 4 if name == "random" else 5
        strs = strings_for(ctx, g, m, maxlen, 400 if ctx.tier == "quick" else 1500)
        amb = False
        st, parser = ctx.guarded(EarleyParser, g)
        if st != "ok":
            ctx.violation(None, f"EarleyParser constructor failed: {parser!r}"[:160], {"grammar": g})
            continue
        st, solver = ctx.guarded(ISLaSolver, g)
        if st != "ok":
            ctx.count("solver_ctor_failed")
            solver = None
        nts = [n for n in m.cg if n != "<start>"]
        for s in strs:
            if not ctx.running():
                break
            if not amb and len(s) <= 6 and m.member(s) and m.count_derivations(s) >= 2:
                amb = True
                ctx.count("grammars_ambiguous")
            judge(ctx, g, m, s, "<start>", "earley", parser=parser)
            if solver is not None and rng.random() < 0.35:
                judge(ctx, g, m, s, rng.choice(nts + ["<start>"]), "solver", solver=solver)


def replay(ctx, w):
    from isla.solver import ISLaSolver
    g = w["grammar"]
    judge(ctx, g, G(g), w["s"], w["nt"], w["via"], solver=ISLaSolver(g) if w["via"] == "solver" else None)
