"""C05: ground SMT atoms judged exactly as Z3 judges them (is_valid / evaluate / ground substitution)."""
import json, re
from islamon.gen import smtatoms as SA
from islamon.ref import z3oracle as R4

SPEC = {
    "quick": {"shards": 16, "budget_s": 50, "timeout_s": 240},
    "thorough": {"shards": 16, "budget_s": 900, "timeout_s": 1600},
    "rule": "case = typed random ground Boolean SMT term (depth 0-3) over the string/int/regex operators ISLa's lexer lists, "
            "string constants from a hostile pool (empty, newline, CRLF, quotes, backslashes, regex metacharacters, NUL, "
            "non-ASCII, astral, long), ints incl. negatives/zero/2^40; three entry points: is_valid(term), evaluate() of a "
            "single-atom constraint whose variables are bound to tree leaves carrying the strings, and "
            "SMTFormula.substitute_expressions reaching the ground auto-evaluation branch. Oracle: Z3 validity of the same "
            "term. distinct = distinct (operator set, entry point, verdict) classes",
    "minimum": {"quick": {"judged": 5000, "via_is_valid": 3000, "via_evaluate": 400, "via_substitute": 400, "ops_with_50_judged": 24, "via_is_valid_in_situ": 20},
                "thorough": {"judged": 150000, "via_evaluate": 8000, "via_substitute": 8000, "ops_with_50_judged": 40}},
    "assumptions": ["Z3 (the wheel in /venv) is the meaning of SMT-LIB atoms: valid iff the negation is unsat; undecided => inconclusive",
                    "str.to.int is applied only to unsigned decimal numerals in judged cases; signed numerals are executed and only "
                    "'does not raise' is judged (ISLa documents a sign-aware reading)",
                    "known deviations are attributed by locating the culprit sub-term (children agree with Z3, the node does not) and "
                    "a trigger predicate on its argument values; for str.in_re additionally ISLa's answer must equal an exact "
                    "emulation of the current Python-re translation"],
}

KF_ARITY = "C05:fallback:not_implemented_failure-arity"


# ---------------------------------------------------------------- classification
def isla_value(z):
    """('val', v) | ('nofast', None) | ('raises', exc)"""
    from isla.z3_helpers import evaluate_z3_expression
    from returns.result import Success
    try:
        r = evaluate_z3_expression(z)
    except Exception as e:
        return "raises", e
    if isinstance(r, Success):
        v = r.unwrap()
        if v[0]:
            return "nofast", None
        return "val", v[1]
    return "nofast", None


def culprit(t):
    for c in t[2]:
        if c[1] != "R":
            r = culprit(c)
            if r:
                return r
    if t[1] == "R" or t[0] == "iconst":
        return None
    z = SA.to_z3(t, env=[])
    kind, v = isla_value(z)
    if kind == "nofast":
        return None
    if kind == "raises":
        return t, kind, v
    if R4.has_value(z, v) is True:
        return None
    return t, kind, v


def emul_re(t):
    """exact emulation of ISLa's current regex -> Python re translation (used only to attribute known deviations)"""
    op, _, ch, par = t
    if op not in ("str.to_re", "re.range"):
        for c in ch:  # ISLa evaluates all children (left to right) before the node itself
            emul_re(c)
    if op == "str.to_re":
        import z3
        s = z3.StringVal(ch[0][3]).as_string().replace(r"\u{}", "\x00")  # how ISLa reads a literal back from Z3
        for sym, ctrl in zip("tnrvf", "\t\n\r\v\f"):
            s = s.replace("\\" + sym, ctrl)
        return re.escape(s)
    if op == "re.range":
        import z3
        rd = lambda x: z3.StringVal(x).as_string().replace(r"\u{}", "\x00")
        return f"[{rd(ch[0][3])}-{rd(ch[1][3])}]"
    if op == "re.++":
        return emul_re(ch[0]) + emul_re(ch[1])
    if op == "re.union":
        return f"(({emul_re(ch[0])})|({emul_re(ch[1])}))"
    if op == "re.*":
        return f"({emul_re(ch[0])})*"
    if op == "re.+":
        return f"({emul_re(ch[0])})+"
    if op == "re.opt":
        return f"({emul_re(ch[0])})?"
    if op == "re.loop":
        body = emul_re(ch[0])
        if par[1] == 0:  # z3 builds (_ re.loop lo): one parameter only
            raise IndexError("list index out of range")
        return f"{body}{{{par[0]},{par[1]}}}"
    if op == "re.all":
        return ".*?"
    if op == "re.comp" and (ch[0][0] == "re.range" or (ch[0][0] == "re.union" and all(g[0] == "str.to_re" for g in ch[0][2]))):
        raise TypeError("re.comp reducer adds a Success to a tuple")  # current behaviour of evaluate_z3_re_comp
    raise KeyError(op)


def re_nodes(t):
    yield t
    for c in t[2]:
        yield from re_nodes(c)


def in_re_trigger(s, R, got_kind, got):
    feats = []
    nodes = list(re_nodes(R))
    lits = [n[2][0][3] for n in nodes if n[0] == "str.to_re"]
    if any(n[0] == "re.comp" for n in nodes):
        feats.append("re.comp")
    for n in nodes:
        if n[0] == "re.loop" and n[3][1] == 0:
            feats.insert(0, "re.loop:single-bound-form")
        if n[0] == "re.loop":
            b = n[2][0]
            if not (b[0] == "re.range" or (b[0] == "str.to_re" and len(b[2][0][3]) == 1)):
                feats.append("re.loop:body-not-single-char")
        if n[0] == "re.range":
            lo, hi = n[2][0][3], n[2][1][3]
            if lo in "[]\\^-" or hi in "[]\\^-":
                feats.append("re.range:special-char-bound")
            elif lo > hi:
                feats.append("re.range:empty-range")
    if any(re.search(r"\\[tnrvf]", l) for l in lits):
        feats.append("str.to_re:backslash-letter-rewritten")
    if "\n" in s and any(n[0] == "re.all" for n in nodes):
        feats.append("re.all:newline")
    if any(ord(c) > 0xff for l in lits + [s] for c in l):
        feats.append("string-literal:char>0xff")
    if any(l == "" for l in lits) and any(n[0] in ("re.*", "re.+", "re.loop") for n in nodes):
        feats.append("empty-literal-under-repetition")
    return feats


def trigger(op, args, node, kind, v):
    if kind == "raises" and isinstance(v, TypeError) and "not_implemented_failure" in str(v):
        return KF_ARITY
    if op != "str.in_re" and any(n[0] == "sconst" and any(ord(c) > 0xff for c in n[3]) for n in re_nodes(node)):
        return "C05:string-literal:char>0xff"
    if op in ("mod", "div") and len(args) == 2 and all(isinstance(a, int) for a in args):
        if args[1] == 0:
            return f"C05:{op}:zero-divisor"
        if args[1] < 0:
            return f"C05:{op}:negative-divisor"
        if op == "div" and args[0] < 0:
            return "C05:div:negative-dividend"
        if abs(args[0]) > 2 ** 52 or abs(args[1]) > 2 ** 52:
            return "C05:div:float-precision"
    if op == "str.at" and isinstance(args[1], int) and (args[1] < 0 or args[1] >= len(args[0])):
        return "C05:str.at:index-out-of-range"
    if op == "str.substr" and (args[1] < 0 or args[2] < 0 or args[1] > len(args[0])):
        return "C05:str.substr:out-of-range-arguments"
    if op == "str.to_code" and len(args[0]) != 1:
        return "C05:str.to_code:non-single-character"
    if op == "str.to.int":
        # signed / non-numeral arguments are outside the property and never judged (see guards); a plain numeral read
        # wrongly has no listed mechanism
        return "C05:str.to.int:signed-or-non-numeral" if not (isinstance(args[0], str) and args[0].isdigit()) else None
    if op in ("str.<", "str.<=", "<", "<=", ">", ">=") and any(isinstance(a, str) for a in args):
        if any(ord(c) > 0xff for a in args if isinstance(a, str) for c in a):
            return "C05:string-literal:char>0xff"
    if op == "str.in_re":
        s, R = args[0], node[2][1]
        try:
            pat = emul_re(R)
            try:
                emu = ("val", re.fullmatch(pat, s) is not None)
            except Exception as e:
                emu = ("raises", type(e).__name__)
        except IndexError as e:
            emu = ("raises", "IndexError")
        except TypeError as e:
            emu = ("raises", "TypeError")
        except KeyError as e:
            emu = ("nofast", str(e))
        same = (kind == "val" and emu == ("val", v)) or (kind == "raises" and emu == ("raises", type(v).__name__))
        if not same:
            return None
        feats = in_re_trigger(s, R, kind, v)
        return ("C05:str.in_re:" + feats[0]) if feats else None
    return None


def args_of(node):
    out = []
    for c in node[2]:
        if c[1] == "R":
            out.append(None)
            continue
        k, v = isla_value(SA.to_z3(c, env=[]))
        if k == "val":
            out.append(v)
        else:  # child not fast-pathed: take Z3's value by simplification
            r = R4.simplify_value(SA.to_z3(c, env=[]))
            out.append(r[1] if r else None)
    return out


def replace_node(t, target, repl):
    if t is target:
        return repl
    return (t[0], t[1], [replace_node(c, target, repl) for c in t[2]], t[3])


def z3_const_node(node):
    r = R4.simplify_value(SA.to_z3(node, env=[]))
    if r is None:
        return None
    if r[0] == "int":
        return ("iconst", "I", [], r[1])
    if r[0] == "bool":
        return ("=", "B", [("iconst", "I", [], 0), ("iconst", "I", [], 0 if r[1] else 1)], None)
    if r[0] == "str":
        return ("sconst", "S", [], r[1])
    return None


def classify(ground):
    """iteratively: find a culprit, name its mechanism, repair it (replace by Z3's value), repeat.
    Returns (key, info): key is None as soon as one culprit has no listed trigger, or when the
    mismatch persists without any culprit."""
    keys, infos = [], []
    try:
        cur = ground
        for _ in range(6):
            c = culprit(cur)
            if not c:
                break
            node, kind, v = c
            key = trigger(node[0], args_of(node), node, kind, v)
            infos.append((node[0], kind, str(v)[:60], key))
            if key is None:
                return None, infos
            keys.append(key)
            repl = z3_const_node(node)
            if repl is None:  # string-valued or undetermined: cannot repair further
                break
            cur = replace_node(cur, node, repl)
        if not keys:
            return None, infos or None
        return keys[0], infos
    except Exception as e:
        return None, ("classifier-error", repr(e)[:100])


def design(t):
    """replace str.to.int(<signed numeral constant>) by ISLa's documented sign-aware reading"""
    if t[0] == "str.to.int" and t[2][0][0] == "sconst" and t[2][0][3][:1] in "+-":
        return ("iconst", "I", [], int(t[2][0][3]))
    return (t[0], t[1], [design(c) for c in t[2]], t[3])


# ---------------------------------------------------------------- entry points
def verdict_of(st, r):
    if st == "watchdog":
        return None
    if st == "exc":
        return f"raises {type(r).__name__}"
    return r


def judge(ctx, t, env, entries, signed):
    import z3
    from isla.z3_helpers import is_valid
    ground = SA.subst(t, env)
    zg = SA.to_z3(ground, env=[])
    if signed:
        ground = design(ground)
        ctx.count("signed_numeral_terms")
    exp = R4.truth(SA.to_z3(ground, env=[]))
    ops = sorted(SA.ops_of(t))
    wit = {"term": t, "env": env, "sexpr": zg.sexpr().replace("\n", " ")[:400]}
    if exp is None:
        ctx.inconclusive("z3-undecided")
        return
    for entry in entries:
        ctx.ev()
        if entry == "is_valid":
            st, r = ctx.guarded(is_valid, zg, timeout=30)
            got = verdict_of(st, r)
            if st == "ok":
                got = True if r.is_true() else False if r.is_false() else "UNKNOWN"
        elif entry == "substitute":
            got = via_substitute(ctx, t, env)
        else:
            got = via_evaluate(ctx, t, env)
        if got is None:
            ctx.inconclusive("watchdog")
            continue
        if got == "skip":
            continue
        ctx.count("via_" + entry)
        if signed:
            # str.to.int on a signed numeral: ISLa's fast path reads "-5" as -5 (documented), Z3 as -1, and which of the two
            # decides depends on whether the rest of the term has a fast path. Only "does not raise" is judged (DESIGN 8).
            if isinstance(got, str) and got.startswith("raises"):
                key, info = classify(ground)
                if "not_implemented_failure" in str(ctx.last_exc):
                    key = KF_ARITY
                ctx.violation(key, f"{entry}: {got} on a term with a signed numeral under str.to.int; culprit {info}", {**wit, "entry": entry})
            else:
                ctx.count("signed_numeral_no_raise")
            continue
        if got == exp:
            for o in ops:
                ctx.count("op:" + o)
            ctx.held((tuple(ops), entry, exp), sample={"entry": entry, "sexpr": wit["sexpr"][:200], "z3": exp, "isla": got})
        else:
            if isinstance(got, str) and got == "raises TypeError" and "not_implemented_failure" in str(ctx.last_exc):
                key, info = KF_ARITY, "exception text"
            else:
                key, info = classify(ground)
            ctx.violation(key, f"{entry}: ISLa {got}, Z3 {exp}; culprit {info}", {**wit, "entry": entry, "culprit": info})


def mk_tree_grammar(env):
    from isla.derivation_tree import DerivationTree
    g = {"<start>": ["".join(f"<v{i}>" for i in range(len(env)))]}
    kids = []
    for i, s in enumerate(env):
        g[f"<v{i}>"] = [s]
        kids.append(DerivationTree(f"<v{i}>", [DerivationTree(s, [])] if s else []))
    return g, DerivationTree("<start>", kids)


def via_substitute(ctx, t, env):
    import z3
    from isla.language import SMTFormula, BoundVariable
    names = [f"x{i}" for i in range(len(env))]
    used = sorted({n[3] for n in walk(t) if n[0] == "svar"})
    if not used or any(re.search(r"<[^<> ]*>", s) for s in env):
        return "skip"  # a leaf labelled like a nonterminal is not a terminal leaf
    zt = SA.to_z3(t, var_names=names)
    g, tree = mk_tree_grammar(env)
    vars_ = {i: BoundVariable(names[i], f"<v{i}>") for i in used}

    def go():
        f = SMTFormula(zt, *vars_.values())
        r = f.substitute_expressions({vars_[i]: tree.children[i] for i in used})
        if isinstance(r, SMTFormula) and z3.is_true(r.formula):
            return True
        if isinstance(r, SMTFormula) and z3.is_false(r.formula):
            return False
        return f"no-auto-eval:{str(r)[:40]}"
    st, r = ctx.guarded(go, timeout=30)
    return verdict_of(st, r)


def walk(t):
    yield t
    for c in t[2]:
        yield from walk(c)


def via_evaluate(ctx, t, env):
    from isla.evaluator import evaluate
    from isla.language import parse_isla
    used = sorted({n[3] for n in walk(t) if n[0] == "svar"})
    if not used:
        return "skip"
    names = [f"x{i}" for i in range(len(env))]
    if any(re.search(r"<[^<> ]*>", s) for s in env):
        return "skip"
    g, tree = mk_tree_grammar(env)
    text = "".join(f"forall <v{i}> x{i} in start: " for i in used) + SA.to_text(t, names)
    st, f = ctx.guarded(parse_isla, text, g, timeout=20)
    if st != "ok":
        ctx.count("text_route_rejected_by_parser")
        return "skip"
    st, r = ctx.guarded(evaluate, f, tree, g, timeout=30)
    if st == "ok":
        return True if r.is_true() else False if r.is_false() else "UNKNOWN"
    return verdict_of(st, r)


def insitu_slice(ctx, rng):
    """is_valid calls made by the solver / evaluator on the atoms of real constraints"""
    from islamon import insitu
    fam, gname, g, log = insitu.solver_workload(ctx, rng, ["is_valid"], nsolve=3, random_share=0.5)
    ctx.ev()
    seen = set()
    for sexpr, got in log["is_valid"][:300]:
        if sexpr in seen or "str.to_int" in sexpr and not __import__("re").search(r'str\.to_int "\d+"', sexpr):
            continue
        seen.add(sexpr)
        exp = R4.truth(sexpr.replace("\n", " "))
        if exp is None:
            ctx.inconclusive("in-situ-atom-not-ground-or-undecided")
            continue
        ctx.count("via_is_valid_in_situ")
        if got == "U" or (got == "T") != exp:
            ctx.violation(None, f"is_valid [in situ, called by the solver] = {got}, Z3 {exp}", {"sexpr": sexpr[:400], "family": fam, "entry": "in-situ"})
        else:
            ctx.held(("in-situ", __import__("re").sub(r'"[^"]*"|\d+', "_", sexpr)[:120], exp))


def run(ctx):
    rng = ctx.rng
    while ctx.running():
        if rng.random() < 0.01:
            insitu_slice(ctx, rng)
            continue
        route = rng.random()
        if route < 0.7:
            gen = SA.Gen(rng, nvars=0)
            t = gen.B(rng.randint(0, 3))
            if SA.size(t) > 40:
                continue
            judge(ctx, t, [], ["is_valid"], gen.signed_used)
        else:
            nv = rng.randint(1, 3)
            plain = rng.random() < 0.6
            gen = SA.Gen(rng, nvars=nv, plain=plain)
            t = gen.B(rng.randint(0, 2), top=plain)
            if SA.size(t) > 30:
                continue
            env = [rng.choice(SA.HOSTILE) for _ in range(nv)]
            judge(ctx, t, env, ["substitute"] + (["evaluate"] if plain else []), gen.signed_used)


def derive(counters):
    return {"ops_with_50_judged": sum(1 for k, v in counters.items() if k.startswith("op:") and v >= 50)}


def replay(ctx, w):
    def fix(t):
        return (t[0], t[1], [fix(c) for c in t[2]], tuple(t[3]) if isinstance(t[3], list) else t[3])
    judge(ctx, fix(w["term"]), w["env"], [w["entry"]], False)
