"""C21: solver outputs for the shipped formalizations pass independent domain validators (R7)."""
import json, random
from islamon.ref.grammar import G, tstr, nodes, kids
from islamon.ref import domain as D

SPEC = {
    "quick": {"shards": 16, "budget_s": 75, "timeout_s": 360},
    "thorough": {"shards": 16, "budget_s": 1200, "timeout_s": 2400},
    "rule": "case = one solver instance for a shipped formalization (CSV csv_colno_property on CSV_GRAMMAR and on the header/body "
            "grammar; XML wellformedness & namespace & no-attr-redef on the prefixed grammar; "
            "reST LENGTH_UNDERLINE & DEF_LINK_TARGETS & NO_LINK_TARGET_REDEF & LIST_NUMBERING_CONSECUTIVE; simple TAR "
            "TAR_CONSTRAINTS) x PRNG seed x cost settings (the test suite's, STD_COST_SETTINGS, perturbed weight vectors, free weight "
            "vectors from {0,1,2,5,10,15,20}^5 with k in {3,4} and 55 solutions) x "
            "instantiation limits (the test suite's, 1-3 SMT instantiations, or plain ISLaSolver(grammar, constraint) with every default); every returned solution is judged by R1 validity and the domain validator (csv module, expat, "
            "docutils + text rules, TAR field slicing with recomputed checksum). distinct = distinct (formalization, solution "
            "string)",
    "minimum": {"quick": {"csv_judged": 60, "xml_judged": 60, "rest_judged": 40, "tar_judged": 5, "solvers": 30},
                "thorough": {"csv_judged": 1200, "xml_judged": 1200, "rest_judged": 700, "tar_judged": 60}},
    "assumptions": ["python csv module, expat (xml.etree) and docutils are the independent notion of validity",
                    "reST 'rendering without errors' = no docutils system message of level ERROR(3)/SEVERE(4); INFO/WARNING are "
                    "recorded only; underline/link/numbering rules are checked on the derivation tree's labels",
                    "exceptions out of solve() are C02's subject and only counted here"],
}


KF_REST_CTRL = "C21:rest:control-character-in-text-read-as-layout-by-docutils"
CTRL = __import__("re").compile("[\r\f\v\x1c-\x1f\x85]")


def cost_computer(name, grammar, rng, variant):
    from isla.solver import GrammarBasedBlackboxCostComputer, CostSettings, CostWeightVector, STD_COST_SETTINGS
    import grammar_graph.gg as gg
    base = {"xml": (9.5, 0, 6, 0, 13), "rest": (7, 1.5, 2.5, 2, 18), "csv": None, "tar": None}.get(name)
    if variant == "std" or base is None and variant == "suite":
        return None
    k = 4
    if variant == "suite":
        w = base
    elif variant == "free":
        # any weight vector, not only neighbours of the tuned ones (zero coverage penalties let deeply nested documents through)
        w = tuple(rng.choice([0, 1, 2, 5, 10, 15, 20]) for _ in range(5))
        if rng.random() < 0.4:
            w = w[:3] + (0, 0)        # no coverage pressure at all
        if w[0] == 0 and w[2] == 0:
            w = (5,) + w[1:]          # neither closing cost nor depth penalty: the search does not converge
        k = rng.choice([3, 4])
    else:
        b = base or (10, 1, 3, 1, 5)
        w = tuple(max(0, x * rng.choice([0.5, 0.8, 1.0, 1.3, 2.0])) for x in b)
    return GrammarBasedBlackboxCostComputer(
        CostSettings(CostWeightVector(tree_closing_cost=w[0], constraint_cost=w[1], derivation_depth_penalty=w[2], low_k_coverage_penalty=w[3],
                                      low_global_k_path_coverage_penalty=w[4]), k=k),
        gg.GrammarGraph.from_grammar(grammar), reset_coverage_after_n_round_with_no_coverage=500)


def formalizations():
    from isla_formalizations import csv as C, xml_lang as X, rest as R, simple_tar as T
    from isla.isla_predicates import COUNT_PREDICATE
    return {
        "csv": (C.CSV_GRAMMAR, C.CSV_COLNO_PROPERTY, lambda t: D.check_csv(tstr(t)), dict(max_number_free_instantiations=1, max_number_smt_instantiations=2, enforce_unique_trees_in_queue=False)),
        "csv-headerbody": (C.CSV_HEADERBODY_GRAMMAR, C.csv_colno_property.replace("<csv-record>", "<csv-record>"), lambda t: D.check_csv(tstr(t)),
                           dict(max_number_free_instantiations=1, max_number_smt_instantiations=2, enforce_unique_trees_in_queue=False, semantic_predicates={COUNT_PREDICATE})),
        "xml": (X.XML_GRAMMAR_WITH_NAMESPACE_PREFIXES, X.XML_NAMESPACE_CONSTRAINT & X.XML_WELLFORMEDNESS_CONSTRAINT & X.XML_NO_ATTR_REDEF_CONSTRAINT,
                lambda t: D.check_xml(tstr(t)), dict(max_number_free_instantiations=1, enforce_unique_trees_in_queue=True)),
        "rest": (R.REST_GRAMMAR, R.LENGTH_UNDERLINE & R.DEF_LINK_TARGETS & R.NO_LINK_TARGET_REDEF & R.LIST_NUMBERING_CONSECUTIVE, None,
                 dict(max_number_free_instantiations=1, max_number_smt_instantiations=1, enforce_unique_trees_in_queue=True)),
        "tar": (T.SIMPLE_TAR_GRAMMAR, T.TAR_CONSTRAINTS, lambda t: D.check_tar(tstr(t)), dict(max_number_free_instantiations=1, max_number_smt_instantiations=1, enforce_unique_trees_in_queue=False)),
    }


def run_one(ctx, name, spec, rng, nsol, budget_s):
    from isla.solver import ISLaSolver
    import time
    grammar, constraint, validator, kw = spec
    m = G(grammar)
    seed = rng.randrange(10 ** 6)
    variant = rng.choice(["suite", "suite", "std", "perturbed", "free", "free"])
    if variant == "free":
        nsol = max(nsol, 55)
        ctx.count("solvers_free_cost_vector")
    kw = dict(kw)
    x = rng.random()
    if x < 0.3:
        kw["max_number_smt_instantiations"] = rng.choice([1, 2, 3])
    elif x < 0.55:
        # the solver's own defaults for the instantiation limits (several SMT models per state: lengths and numbers beyond
        # Z3's first, smallest model)
        kw = {k: v for k, v in kw.items() if k == "semantic_predicates"}    # ISLaSolver(grammar, constraint), nothing tuned
        if rng.random() < 0.6:
            variant = "std"
        ctx.count("solvers_default_settings")
    random.seed(seed)
    ctx.ev()
    wit = {"formalization": name, "seed": seed, "cost_variant": variant, "settings": {k: v for k, v in kw.items() if isinstance(v, (int, bool))}}

    def mk():
        cc = cost_computer(name.split("-")[0], grammar, rng, variant)
        return ISLaSolver(grammar, constraint, **kw, **({"cost_computer": cc} if cc is not None else {}))
    st, solver = ctx.guarded(mk, timeout=60)
    if st != "ok":
        ctx.count("constructor_failed:" + (type(solver).__name__ if st == "exc" else "watchdog"))
        return ctx.inconclusive("constructor-failed")
    ctx.count("solvers")
    t0 = time.time()
    fam = name.split("-")[0]
    for k in range(nsol):
        st, t = ctx.guarded(solver.solve, timeout=max(3, budget_s - (time.time() - t0)))
        if st == "watchdog":
            ctx.inconclusive("solve-watchdog")
            break
        if st == "exc":
            if isinstance(t, (StopIteration, TimeoutError)):
                ctx.count("end_" + type(t).__name__)
            else:
                from islamon.worker import exc_site
                ctx.count("solve_raised:" + ":".join(exc_site(t)))
                ctx.inconclusive("solve-raised (C02's subject)")
            break
        s = tstr(t)
        why = "open leaves in solution" if any(kids(n) is None for _, n in nodes(t)) else m.valid_tree(t, "<start>", allow_open=False)
        if not why:
            if name == "rest":
                why = D.check_rest_rules(t)
                if not why:
                    why, level = D.check_rest_docutils(s)
                    ctx.count(f"rest_docutils_max_level_{level}")
            else:
                why = validator(t)
        if why:
            key = None
            if name == "rest" and "docutils reports" in str(why) and CTRL.search(s):
                # repaired twin on the input side: the same document with its control characters (carriage return, form
                # feed, vertical tab, ... - docutils reads them as line breaks / indentation) replaced by a letter
                why2, _ = D.check_rest_docutils(CTRL.sub("x", s))
                if why2 is None:
                    key = KF_REST_CTRL
            ctx.violation(key, f"{name}: {why}", {**wit, "solution": s, "k": k + 1})
        else:
            ctx.count(fam + "_judged")
            ctx.held((name, s), sample={"formalization": name, "solution": s[:120], "seed": seed, "cost_variant": variant})


def run(ctx):
    rng = ctx.rng
    F = formalizations()
    names = list(F)
    nsol = 25 if ctx.tier == "quick" else 60
    i = ctx.shard
    while ctx.running():
        name = names[i % len(names)]
        i += 1
        run_one(ctx, name, F[name], rng, nsol, 35 if name != "tar" else 50)


def replay(ctx, w):
    ctx.inconclusive("replay re-runs the generator; use seed/shard of the witness")
