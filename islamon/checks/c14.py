"""C14: helpers that build trees to a target (length / numeric model value / count) meet it."""
import json, random
from islamon.ref.grammar import G, tstr, nodes, lab, kids, to_list, is_nt
from islamon.gen import grammars as GG

SPEC = {
    "quick": {"shards": 16, "budget_s": 50, "timeout_s": 240},
    "thorough": {"shards": 16, "budget_s": 800, "timeout_s": 1500},
    "rule": "(a) create_fixed_length_tree(start, G, n): grammars with nullable/recursive/multi-character-terminal nonterminals, "
            "every nonterminal as start, n in 0..30, several PRNG seeds; judged: None or closed valid tree for start with "
            "len(str) == n. (b) numeric/length model values: solver runs with str.to.int / str.len constraints, monitor on "
            "extract_model_value: result valid for the variable's nonterminal, int(str) resp. len(str) equals the model value. "
            "(c) count(graph, in_tree, needle, num) on open and closed trees: a proposed candidate is valid for the root label, "
            "keeps all nodes of in_tree by id, has exactly num needle nodes and no open leaf that can still derive a needle. "
            "distinct = distinct (grammar, start/needle, target, outcome class, tree shape bucket)",
    "minimum": {"quick": {"fixed_length_judged": 400, "fixed_length_trees": 250, "count_calls": 500, "count_proposals_judged": 150,
                          "model_values_judged": 30},
                "thorough": {"fixed_length_judged": 5200, "count_calls": 11000, "count_proposals_judged": 3000, "model_values_judged": 460}},
    "assumptions": ["R1 validity and reachability", "non-termination is bounded by a watchdog and counted as inconclusive "
                    "(the property does not promise termination)", "an open leaf labelled needle is an occurrence already counted"],
}

LEN_GRAMMARS = ["assgn2", "nest", "expr", "eps", "centre", "multichar", "numeral", "nullchain", "nestlist", "leftrec"]


def judge_fixed(ctx, gname, g, m, start, n, seed):
    from isla.solver import create_fixed_length_tree
    from isla.helpers import canonical
    ctx.ev()
    wit = {"kind": "fixed", "grammar": g, "start": start, "n": n, "seed": seed}
    random.seed(seed)
    st, r = ctx.guarded(create_fixed_length_tree, start, canonical(g), n, timeout=2)
    if st == "watchdog":
        return ctx.inconclusive("fixed-length-nontermination-watchdog")
    if st == "exc":
        if isinstance(r, RecursionError):
            return ctx.inconclusive("recursion-limit")
        return ctx.violation(None, f"create_fixed_length_tree({start}, {n}) raises {type(r).__name__}: {str(r)[:80]}", wit)
    ctx.count("fixed_length_judged")
    if r is None:
        # None is allowed; record whether a word of that length exists at all (informational)
        ctx.count("fixed_length_none")
        return ctx.held(("fixed-none", gname, start, n))
    why = m.valid_tree(r, start, allow_open=False)
    if not why and len(tstr(r)) != n:
        why = f"string {tstr(r)!r} has length {len(tstr(r))} != {n}"
    if why:
        return ctx.violation(None, f"create_fixed_length_tree({start}, {n}): {why}", {**wit, "tree": to_list(r)})
    ctx.count("fixed_length_trees")
    ctx.held(("fixed", gname, start, n), sample={"kind": "fixed_length", "start": start, "n": n, "result": tstr(r)})


def judge_count(ctx, gname, g, m, graph, rng):
    from isla.isla_predicates import count
    from isla.derivation_tree import DerivationTree
    from islamon.bridge import to_dt, cut
    tl = m.random_tree(rng, budget=rng.choice([2, 5, 10, 20]), eps_style="empty")
    if rng.random() < 0.8:
        tl = cut(tl, rng, ncuts=rng.choice([1, 1, 2, 3]))
    if rng.random() < 0.1:
        tl = ["<start>", None]
    host = to_dt(tl, keep_ids=False)
    subs = [(p, n) for p, n in nodes(host) if is_nt(lab(n))]
    p, sub = rng.choice(subs)
    needle = rng.choice(sorted(m.cg))
    n = rng.randint(0, 5)
    ctx.ev()
    wit = {"kind": "count", "grammar": g, "tree": to_list(sub), "needle": needle, "num": n}
    random.seed(rng.randrange(10 ** 6))
    st, r = ctx.guarded(count, graph, sub, needle, DerivationTree(str(n), ()), timeout=15)
    if st == "watchdog":
        return ctx.inconclusive("count-watchdog")
    if st == "exc":
        from islamon.worker import exc_site
        ctx.count("count_raised:" + ":".join(exc_site(r)))
        return ctx.inconclusive("count-raised")   # C14 constrains what is built, not raising
    ctx.count("count_calls")
    reach = m.reach()
    have = sum(1 for _, x in nodes(sub) if lab(x) == needle)
    if r.result is True or r.result is False or r.result is None:
        can_more = any(needle in reach[lab(x)] for _, x in nodes(sub) if kids(x) is None)
        if r.result is True and (have != n or can_more):
            return ctx.violation(None, f"count answers TRUE with {have} needles (requested {n}), more possible: {can_more}", wit)
        if r.result is False and not can_more and have == n:
            return ctx.violation(None, f"count answers FALSE although the closed tree has exactly {n} needles", wit)
        return ctx.held(("count", gname, needle, n, str(r.result)))
    if list(r.result.keys()) != [sub] and [k.id for k in r.result] != [sub.id]:
        return ctx.violation(None, "count proposes a replacement for something that is not the argument tree", wit)
    cand = list(r.result.values())[0]
    why = m.valid_tree(cand, lab(sub), allow_open=True)
    if not why:
        ids = {x.id: lab(x) for _, x in nodes(cand)}
        lost = [x.id for _, x in nodes(sub) if ids.get(x.id) != lab(x)]
        if lost:
            why = f"{len(lost)} nodes of in_tree are no longer present (by id and label)"
    if not why:
        c2 = sum(1 for _, x in nodes(cand) if lab(x) == needle)
        if c2 != n:
            why = f"candidate has {c2} needle nodes, requested {n}"
    if not why:
        more = [lab(x) for _, x in nodes(cand) if kids(x) is None and needle in reach[lab(x)]]
        if more:
            why = f"open leaves {more[:3]} can still derive {needle}"
    if why:
        return ctx.violation(None, "count proposal: " + why, {**wit, "candidate": to_list(cand)})
    ctx.count("count_proposals_judged")
    ctx.held(("count-prop", gname, needle, n, len(list(nodes(sub))) // 4),
             sample={"kind": "count", "in_tree": sub.to_string(show_open_leaves=True), "needle": needle, "num": n, "candidate": cand.to_string(show_open_leaves=True)})


# ---- (b) model values, in situ -------------------------------------------
NUM_CASES = [
    ("numeral", "forall <num> n in start: str.to.int(n) > {a}", [3, 17, 99, 250]),
    ("numeral", "exists <num> n in start: str.to.int(n) = {a}", [5, 42, 100, 7]),
    ("padnum", "forall <val> v in start: (str.to.int(v) >= {a} and str.to.int(v) <= {b})", [(3, 9), (10, 40), (100, 120)]),
    ("padnum", "forall <id> i in start: str.len(i) = {a}", [1, 3, 6, 11]),
    ("padnum", "forall <val> v in start: str.len(v) >= {a}", [2, 5]),
    ("assgn2", "forall <n> n in start: str.to.int(n) > {a}", [1, 11, 21]),
    ("nestlist", "forall <vals> v in start: str.len(v) = {a}", [1, 3, 5, 9]),
    ("expr", "forall <d> d in start: str.to.int(d) >= {a}", [1, 10, 100]),
]


def model_values(ctx, rng):
    """monitor on ISLaSolver.extract_model_value while numeric/length constraints are solved"""
    from isla import solver as S
    import z3
    case = rng.choice(NUM_CASES)
    gname, tmpl, params = case
    par = rng.choice(params)
    text = tmpl.format(a=par[0], b=par[1]) if isinstance(par, tuple) else tmpl.format(a=par)
    g = GG.FEATURE[gname]
    m = G(g)
    seen = []
    orig = S.ISLaSolver.extract_model_value

    def wrapper(self, var, model, fresh_var_map, length_vars, int_vars):
        res = orig(self, var, model, fresh_var_map, length_vars, int_vars)
        try:
            kind = "len" if var in length_vars else "int" if var in int_vars else "str"
            mv = model[fresh_var_map[var]] if var in fresh_var_map and kind in ("len", "int") else None
            seen.append((var.n_type, kind, None if mv is None else mv.as_long() if z3.is_int_value(mv) else None, res))
        except Exception as e:
            ctx.count("model_value_monitor_error")
        return res
    S.ISLaSolver.extract_model_value = wrapper
    try:
        random.seed(rng.randrange(10 ** 6))

        def go():
            s = S.ISLaSolver(g, text, max_number_smt_instantiations=rng.choice([1, 3]), enable_optimized_z3_queries=True, timeout_seconds=6)
            out = []
            for _ in range(4):
                try:
                    out.append(s.solve())
                except (StopIteration, TimeoutError):
                    break
            return out
        st, r = ctx.guarded(go, timeout=12)
    finally:
        S.ISLaSolver.extract_model_value = orig
    ctx.ev()
    if st == "exc":
        ctx.count("solver_raised_during_model_value_workload")
    for nt, kind, mv, res in seen:
        wit = {"kind": "model_value", "grammar": gname, "constraint": text, "nonterminal": nt, "var_kind": kind, "model": mv, "tree": to_list(res)}
        why = m.valid_tree(res, nt, allow_open=False)
        s = tstr(res)
        if not why and kind == "int" and mv is not None:
            try:
                if int(s) != mv:
                    why = f"int({s!r}) != model value {mv}"
            except ValueError:
                why = f"{s!r} is not a numeral although the model value is {mv}"
        if not why and kind == "len" and mv is not None and len(s) != mv:
            why = f"len({s!r}) != model length {mv}"
        if why:
            ctx.violation(None, f"extract_model_value for {nt} ({kind}): {why}", wit)
        else:
            ctx.count("model_values_judged")
            ctx.count("model_values_" + kind)
            ctx.held(("mv", gname, nt, kind, min(len(s), 8)), sample={"kind": "model_value", "constraint": text, "var_kind": kind, "model": mv, "result": s})


def run(ctx):
    import grammar_graph.gg as gg
    rng = ctx.rng
    graphs = {}
    while ctx.running():
        x = rng.random()
        if x < 0.35:
            gname = rng.choice(LEN_GRAMMARS + ["random"])
            g = GG.FEATURE[gname] if gname != "random" else GG.random_grammar(rng)
            m = G(g)
            start = rng.choice(list(m.cg))
            for n in rng.sample(range(0, 31), 4):
                judge_fixed(ctx, gname, g, m, start, n, rng.randrange(10 ** 6))
        elif x < 0.9:
            gname = rng.choice(["assgn2", "nest", "expr", "eps", "nestlist", "numeral", "leftrec", "centre"])
            g = GG.FEATURE[gname]
            if gname not in graphs:
                graphs[gname] = gg.GrammarGraph.from_grammar(g)
            for _ in range(5):
                judge_count(ctx, gname, g, G(g), graphs[gname], rng)
        else:
            model_values(ctx, rng)


def replay(ctx, w):
    import grammar_graph.gg as gg
    g = w.get("grammar")
    if w["kind"] == "fixed":
        judge_fixed(ctx, "replay", g, G(g), w["start"], w["n"], w["seed"])
    else:
        ctx.inconclusive("replay for this case kind re-runs the generator; use seed/shard of the witness")
