"""C02: solve() returns a tree or raises StopIteration/TimeoutError, never anything else, and terminal states are absorbing."""
import json, random
from islamon.ref import semantics as R2
from islamon.gen import grammars as GG, solvercases as SC
from islamon import vclock

SPEC = {
    "quick": {"shards": 16, "budget_s": 60, "timeout_s": 300},
    "thorough": {"shards": 16, "budget_s": 1000, "timeout_s": 1800},
    "rule": "case = one history of solve() calls on one solver: documented constraint families and random formulas (operators and "
            "shapes from the general generator) x solver settings; after the first StopIteration/TimeoutError the driver calls "
            "solve() 4 more times. TimeoutError is placed with a virtual clock (isla.solver.time replaced by a step counter so "
            "the timeout falls after the j-th loop iteration, j in 1..200: before the first solution, between solutions, with "
            "solutions still queued); a small slice uses real 1-2 s timeouts. History checker: every outcome in {tree, "
            "StopIteration, TimeoutError}; after the first StopIteration only StopIteration; after the first TimeoutError only "
            "TimeoutError. distinct = distinct (family, formula skeleton, outcome-kind sequence)",
    "minimum": {"quick": {"histories": 120, "calls": 800, "ended_stop": 30, "ended_timeout": 25, "histories_with_3_trees": 50, "virtual_timeouts": 20,
                          "timeout_with_solutions_before": 5},
                "thorough": {"histories": 400, "ended_stop": 120, "ended_timeout": 80, "histories_with_3_trees": 150}},
    "assumptions": ["constraints rejected by the constructor / parse_isla are not histories of solve()", "a watchdog kill is inconclusive",
                    "the virtual clock represents time.time() as used by ISLaSolver.solve (checked against a real-time slice)"],
}


def drive(ctx, fam, gname, f, st, seed, vstep, real_timeout, ncalls):
    g = GG.FEATURE[gname]
    text = R2.pr(f)
    ctx.ev()
    random.seed(seed)
    wit = {"family": fam, "grammar": gname, "constraint": text, "settings": st, "seed": seed, "vstep": vstep, "real_timeout": real_timeout}
    tmo = real_timeout if real_timeout else (100 if vstep else None)

    def whole():
        hist = []
        solver = SC.make_solver(g, text, st, tmo)
        terminal, extra = None, 0
        for k in range(ncalls + 5):
            try:
                t = solver.solve()
                hist.append(("tree", None))
            except StopIteration:
                hist.append(("stop", None))
            except TimeoutError as e:
                hist.append(("timeout", e.args[0] if e.args else None))     # ISLa raises TimeoutError(self.timeout_seconds)
            except Exception as e:
                from islamon.worker import exc_site, Watchdog
                if "Watchdog" in repr(e):   # the alarm fired inside a ctypes callback and was wrapped (ctypes.ArgumentError)
                    raise Watchdog()
                hist.append(("other", exc_site(e) + (str(e)[:100],)))
            if hist[-1][0] != "tree":
                terminal = terminal or hist[-1][0]
                extra += 1
                if extra > 4:
                    break
            elif terminal is None and len(hist) >= ncalls:
                break
        return hist
    try:
        if vstep:
            with vclock.installed(vstep):
                st_, hist = ctx.guarded(whole, timeout=25)
        else:
            st_, hist = ctx.guarded(whole, timeout=25)
    except Exception as e:
        st_, hist = "exc", e
    if st_ == "watchdog":
        return ctx.inconclusive("watchdog")
    if st_ == "exc":
        ctx.count("constructor_rejected:" + type(hist).__name__)
        return ctx.inconclusive("constructor-or-parser-rejected")
    kinds = [h[0] for h in hist]
    ctx.count("histories")
    ctx.count("calls", len(hist))
    wit["history"] = kinds
    bad = False
    for i, (kind, info) in enumerate(hist):
        if kind == "other":
            typ, where, msg = info
            # documented families: keyed by the exact raising function; random formulas (possibly outside the supported
            # fragment): keyed by exception type and file only, so that a rare assertion site does not raise a false alarm
            key = (f"C02:{typ}:{where.split(':')[0]}:random-formula" if fam == "random" else f"C02:{typ}:{where}:family={fam}")
            ctx.violation(key, f"solve() call #{i + 1} raised {typ} from {where}: {msg}", wit)
            bad = True
            break
    first_term = next((i for i, k in enumerate(kinds) if k in ("stop", "timeout")), None)
    if not bad and first_term is not None:
        term = kinds[first_term]
        later = kinds[first_term + 1:]
        if any(k != term for k in later):
            key = None
            nested_escape = hist[first_term][1] == 2 and tmo != 2    # the nested unsat check's private timeout_seconds = 2
            if term == "timeout" and st.get("activate_unsat_support") and (nested_escape or all(k == "stop" for k in later) or (vstep is None and real_timeout is None)):
                # the 2-second timeout of the nested unsat check (process_new_state) escapes as the user's TimeoutError; the
                # queue copy restored afterwards no longer holds the popped state, so the next call finds it empty. When no
                # timeout was configured at all, or when the error carries the nested check's own limit (2) instead of the
                # configured one, the TimeoutError can only be that nested check's, whatever follows it
                key = "C02:unsat-support:nested-check-timeout-escapes-then-StopIteration"
            ctx.violation(key, f"after the first {term} (call #{first_term + 1}) later calls gave {later}", wit)
            bad = True
        if term == "stop":
            ctx.count("ended_stop")
        else:
            ctx.count("ended_timeout")
            if vstep:
                ctx.count("virtual_timeouts")
            else:
                ctx.count("real_timeouts")
            if first_term > 0:
                ctx.count("timeout_with_solutions_before")
    if kinds.count("tree") >= 3:
        ctx.count("histories_with_3_trees")
    if not bad:
        comp = []
        for k in kinds:
            if not comp or comp[-1][0] != k:
                comp.append([k, 1])
            else:
                comp[-1][1] = min(comp[-1][1] + 1, 5)
        ctx.held((fam, R2.skeleton(f), tuple(map(tuple, comp))), sample={"family": fam, "constraint": text[:140], "history": kinds, "virtual_step": vstep})


def run(ctx):
    rng = ctx.rng
    ncalls = 8 if ctx.tier == "quick" else 20
    while ctx.running():
        fam, gname, f = rng.choice(SC.families(rng)) if rng.random() < 0.6 else SC.random_family(rng)
        x = rng.random()
        vstep, real = None, None
        if x < 0.45:
            vstep = 100.0 / rng.choice([1, 2, 3, 5, 8, 13, 21, 34, 55, 89, 144, 200])
        elif x < 0.5:
            real = rng.choice([1, 3])       # never 2: that value identifies the nested unsat check's own timeout
        drive(ctx, fam, gname, f, SC.settings(rng, unsat=0.3), rng.randrange(10 ** 6), vstep, real, ncalls)


def replay(ctx, w):
    ctx.inconclusive("replay re-runs the generator; use seed/shard of the witness")
