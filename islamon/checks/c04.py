"""C04: structural predicates vs R3 on all ordered node pairs; also through evaluate()."""
import json
from islamon.ref.grammar import G, nodes, get, lab, kids, is_nt, to_list
from islamon.ref import predicates as R3
from islamon.gen import grammars as GG

SPEC = {
    "quick": {"shards": 16, "budget_s": 45, "timeout_s": 200},
    "thorough": {"shards": 16, "budget_s": 800, "timeout_s": 1500},
    "rule": "case = (tree, predicate): for each random tree (<= 40 nodes, corpus + random grammars, open and closed) ALL "
            "ordered node pairs are judged for the 7 binary predicates, nth with N in 1..occurrences+1, level with all 5 "
            "operators x every nonterminal, through StructuralPredicate.evaluate (paths) and a sample through "
            "StructuralPredicateFormula.evaluate (node ids); plus per tree one quantified formula per predicate through "
            "evaluate(). distinct = distinct (tree shape, predicate, entry point) with at least one judged pair",
    "minimum": {"quick": {"pair_calls": 300000, "trees": 150, "via_evaluate": 300, "pairs_ancestor": 5000, "pairs_identical": 1000, "pair_calls_in_situ": 100},
                "thorough": {"pair_calls": 5000000, "trees": 2500, "via_evaluate": 5000}},
    "assumptions": ["R3 (islamon/ref/predicates.py): before = the spec's isBefore; after(a,b) = before(b,a); inside = prefix; "
                    "consecutive judged only for two leaves; level per the documented five-line comment; nth counted in "
                    "pre-order within node_2", "known deviations are attributed only when ISLa's answer equals an exact "
                    "emulation of the known mechanism"],
}

KF_AFTER = "C04:after:below-counts-as-after"
KF_CONSEC = "C04:consecutive:relative-vs-absolute-leaf-paths"


def buggy_after(p1, p2):
    return (not R3.before(p1, p2)) and tuple(p1) != tuple(p2[:len(p1)])


def buggy_consecutive(root, p1, p2):
    if p1 == p2 or not R3.before(p1, p2):
        return False
    k = 0
    while k < min(len(p1), len(p2)) and p1[k] == p2[k]:
        k += 1
    sub = get(root, p1[:k])
    rel_leaves = [p for p, n in nodes(sub) if not kids(n)]
    return not any(p != p1 and p != p2 and R3.before(p1, p) and R3.before(p, p2) for p in rel_leaves)


def classify(name, root, a, isla):
    if name == "after" and isla == buggy_after(a[0], a[1]):
        return KF_AFTER
    if name == "consecutive" and isla == buggy_consecutive(root, tuple(a[0]), tuple(a[1])):
        return KF_CONSEC
    return None


def rel(p1, p2):
    if p1 == p2:
        return "identical"
    if p1[:len(p2)] == p2 or p2[:len(p1)] == p1:
        return "ancestor"
    return "other"


def judge_tree(ctx, g, m, tl, preds, do_eval=True):
    from islamon.bridge import to_dt
    from isla.language import StructuralPredicateFormula
    t = to_dt(tl)
    allp = [(p, n) for p, n in nodes(t)]
    if len(allp) > 45:
        return
    ctx.count("trees")
    rng = ctx.rng
    nts = list(m.cg)
    tshape = json.dumps(to_list(t), default=str)[:0] + str(hash(json.dumps([lab(n) for _, n in allp]) + str([p for p, _ in allp])))
    bad = {}

    def one(name, args, paths, sample_formula=False):
        ctx.ev()
        ctx.count("pair_calls")
        exp = R3.pred_eval(name, t, args)
        if exp is None:
            ctx.count("not_judged_undocumented")
            return
        try:
            got = preds[name].evaluate(t, *args)
        except Exception as e:
            got = f"raises {type(e).__name__}"
        if sample_formula:
            fargs = [a if isinstance(a, str) else get(t, a) for a in args]
            try:
                got2 = StructuralPredicateFormula(preds[name], *fargs).evaluate(t)
            except Exception as e:
                got2 = f"raises {type(e).__name__}"
            ctx.count("via_formula")
            if got2 != got and got == exp:
                got = got2
        if got is not exp and got != exp:
            key = classify(name, t, paths, got)
            if (name, key) not in bad:
                bad[(name, key)] = 0
            bad[(name, key)] += 1
            if bad[(name, key)] <= 1:
                ctx.violation(key, f"{name}{tuple(args)}: ISLa {got}, documented meaning {exp}",
                              {"grammar": g, "tree": to_list(t), "pred": name, "args": [list(a) if isinstance(a, tuple) else a for a in args]})
            else:
                ctx.count("violations_same_tree_suppressed")

    for name in R3.BINARY:
        for p1, n1 in allp:
            for p2, n2 in allp:
                ctx.count("pairs_" + rel(p1, p2))
                one(name, [p1, p2], (p1, p2), sample_formula=rng.random() < 0.02)
        if not any(k[0] == name for k in bad):
            ctx.held((tshape, name, "direct"))
    # nth
    for p1, n1 in allp:
        if not is_nt(lab(n1)):
            continue
        for p2, n2 in allp:
            occ = sum(1 for _, x in nodes(n2) if lab(x) == lab(n1))
            for N in range(1, min(occ, 4) + 2):
                one("nth", [str(N), p1, p2], (p1, p2), sample_formula=rng.random() < 0.02)
    if not any(k[0] == "nth" for k in bad):
        ctx.held((tshape, "nth", "direct"))
    for op in R3.LEVEL_OPS:
        for nt in nts[:4]:
            for p1, n1 in allp:
                for p2, n2 in allp:
                    one("level", [op, nt, p1, p2], (p1, p2), sample_formula=rng.random() < 0.005)
    if not any(k[0] == "level" for k in bad):
        ctx.held((tshape, "level", "direct"))
    if do_eval and not any(kids(n) is None for _, n in allp):
        via_evaluate(ctx, g, m, t, allp, preds, tshape)


def via_evaluate(ctx, g, m, t, allp, preds, tshape):
    from isla.evaluator import evaluate
    from isla.isla_predicates import STANDARD_STRUCTURAL_PREDICATES
    rng = ctx.rng
    labels = sorted({lab(n) for _, n in allp if is_nt(lab(n))})
    for name in R3.BINARY + ["nth", "level"]:
        A, B = rng.choice(labels), rng.choice(labels)
        q1, q2 = rng.choice(["forall", "exists"]), rng.choice(["forall", "exists"])
        if name == "nth":
            extra = [str(rng.randint(1, 3))]
            atom = f'nth("{extra[0]}", a, b)'
        elif name == "level":
            extra = [rng.choice(R3.LEVEL_OPS), rng.choice(labels)]
            atom = f'level("{extra[0]}", "{extra[1]}", a, b)'
        else:
            extra = []
            atom = f"{name}(a, b)"
        neg = rng.random() < 0.3
        text = f"{q1} {A} a in start: {q2} {B} b in start: " + (f"not {atom}" if neg else atom)
        pa = [p for p, n in allp if lab(n) == A]
        pb = [p for p, n in allp if lab(n) == B]
        vals, buggy_vals = [], []
        undocumented = False
        for x in pa:
            row, brow = [], []
            for y in pb:
                r = R3.pred_eval(name, t, extra + [x, y])
                if r is None:
                    undocumented = True
                    break
                b = buggy_after(x, y) if name == "after" else buggy_consecutive(t, x, y) if name == "consecutive" else r
                row.append(r != neg)
                brow.append(b != neg)
            if undocumented:
                break
            vals.append(row)
            buggy_vals.append(brow)
        ctx.ev()
        if undocumented:
            ctx.inconclusive("consecutive-on-non-leaf")
            continue
        agg = lambda rows: (all if q1 == "forall" else any)([(all if q2 == "forall" else any)(r) for r in rows])
        exp, bexp = agg(vals), agg(buggy_vals)
        st, r = ctx.guarded(evaluate, text, t, g, structural_predicates=STANDARD_STRUCTURAL_PREDICATES, timeout=30)
        if st == "watchdog":
            ctx.inconclusive("watchdog")
            continue
        got = (True if r.is_true() else False if r.is_false() else "UNKNOWN") if st == "ok" else f"raises {type(r).__name__}: {str(r)[:60]}"
        ctx.count("via_evaluate")
        if got == exp:
            ctx.held((tshape, name, "evaluate"), sample={"formula": text, "tree": str(t), "verdict": got})
        else:
            key = None
            if got == bexp and name == "after":
                key = KF_AFTER
            if got == bexp and name == "consecutive":
                key = KF_CONSEC
            ctx.violation(key, f"evaluate({text!r}) = {got}, documented meaning {exp}",
                          {"grammar": g, "tree": to_list(t), "formula": text})


def insitu_slice(ctx, rng):
    """structural predicate calls made by the solver / evaluator themselves"""
    from islamon import insitu
    fam, gname, g, log = insitu.solver_workload(ctx, rng, ["struct_pred"], families={"defuse-mexpr", "nth", "forall-level", "eq-two-nodes", "int-sum", "different"},
                                                nsolve=3, random_share=0.5)
    ctx.ev()
    seen = set()
    for name, tree, args, got in log["struct_pred"][:400]:
        if any(a is None for a in args):
            continue
        a = [x if isinstance(x, str) else tuple(x) for x in args]
        sig = (name, id(tree), tuple(a))
        if sig in seen:
            continue
        seen.add(sig)
        try:
            exp = R3.pred_eval(name, tree, a)
        except Exception:
            continue
        if exp is None:
            ctx.count("not_judged_undocumented")
            continue
        ctx.count("pair_calls_in_situ")
        if bool(got) != exp:
            paths = [x for x in a if isinstance(x, tuple)]
            key = classify(name, tree, paths[-2:], bool(got)) if len(paths) >= 2 else None
            ctx.violation(key, f"{name}{tuple(a)} [in situ, called by the solver]: ISLa {got}, documented meaning {exp}",
                          {"grammar": g, "tree": to_list(tree), "pred": name, "args": [list(x) if isinstance(x, tuple) else x for x in a], "family": fam})
        else:
            ctx.held((name, "in-situ", gname, exp))


def run(ctx):
    from isla.isla_predicates import STANDARD_STRUCTURAL_PREDICATES
    from islamon.bridge import cut
    preds = {p.name: p for p in STANDARD_STRUCTURAL_PREDICATES}
    rng = ctx.rng
    corpus = [g for n, g in GG.FEATURE.items() if not n.startswith("wide")]
    while ctx.running():
        if rng.random() < 0.08:
            insitu_slice(ctx, rng)
            continue
        g = rng.choice(corpus) if rng.random() < 0.6 else GG.random_grammar(rng)
        m = G(g)
        tl = m.random_tree(rng, budget=rng.choice([4, 8, 14, 20]))
        if rng.random() < 0.25:
            tl = cut(tl, rng, ncuts=rng.choice([1, 2]))
        st, v = ctx.guarded(judge_tree, ctx, g, m, tl, preds, timeout=120)
        if st == "watchdog":
            ctx.inconclusive("watchdog")
        elif st == "exc":
            raise v


def replay(ctx, w):
    from isla.isla_predicates import STANDARD_STRUCTURAL_PREDICATES
    preds = {p.name: p for p in STANDARD_STRUCTURAL_PREDICATES}
    judge_tree(ctx, w["grammar"], G(w["grammar"]), w["tree"], preds)
