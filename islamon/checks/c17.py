"""C17: serialization round-trips (pickle / JSON / deepcopy / CLI JSON) without damaging the original."""
import random, json, pickle, copy
from islamon.ref.grammar import G
from islamon.ref import treemodel as TM
from islamon.gen import grammars as GG
from islamon.gen.smtatoms import HOSTILE

SPEC = {
    "quick": {"shards": 16, "budget_s": 40, "timeout_s": 200},
    "thorough": {"shards": 16, "budget_s": 600, "timeout_s": 1200},
    "rule": "tree case = history on one random tree (open/closed, wide, both epsilon encodings) mixing cache computations "
            "(k_paths with/without potential paths on the root and on children, hash, structural_hash, len, is_open, to_string, "
            "paths, trie) with serializations (pickle, to_json/from_json, deepcopy, CLI derivation_tree_to_json -> json.loads "
            "-> from_parse_tree) in random order; judged: decoded == original (structure, ids, string; structure+string for the "
            "id-less CLI JSON); the decoded tree's ==, hash, structural_hash, len and k-paths equal those of a cache-free twin "
            "rebuilt from the recorded structure, also after serializing the decoded tree a second time; every earlier "
            "observation on the original repeats with the same value, nothing raises. "
            "formula case = SMTFormula over 1-2 variables with string literals from the hostile pool: pickle round-trip equal "
            "and same sexpr. distinct = distinct (operation-kind sequence, tree-size bucket) / distinct literal tuples",
    "minimum": {"quick": {"tree_histories": 600, "serializations": 3000, "formulas_judged": 500},
                "thorough": {"tree_histories": 15000, "formulas_judged": 12000}},
    "assumptions": ["structure is read through raw .value/.children/.id (treemodel.snap)"],
}

KF_TOJSON = "C17:to_json:k-paths-cache"
KF_QUOTE = "C17:smtformula-pickle:quote-in-literal"
KF_WIDE = "C17:smtformula-pickle:non-ascii-literal"


def tree_history(ctx, hseed):
    from islamon.bridge import to_dt, cut
    from isla.derivation_tree import DerivationTree
    from isla.cli import derivation_tree_to_json
    import grammar_graph.gg as gg
    rng = random.Random(hseed)
    gname = rng.choice(list(GG.FEATURE))
    g = GG.FEATURE[gname]
    graph = gg.GrammarGraph.from_grammar(g)
    M = G(g)
    base = M.random_tree(rng, budget=rng.choice([2, 6, 15, 30]))
    if rng.random() < 0.4:
        base = cut(base, rng, ncuts=rng.choice([1, 2]))
    t = to_dt(base, keep_ids=False)
    m0 = TM.snap(t)
    wit = {"hseed": hseed, "grammar": gname, "tree": t.to_string(show_open_leaves=True)[:120]}
    obs = {}      # name -> value observed on the original
    kinds = []
    kp_used = False

    def observe(name):
        nonlocal kp_used
        if name == "kpaths3":
            kp_used = True
            return frozenset(str(p) for p in t.k_paths(graph, 3))
        if name == "kpaths2c":
            kp_used = True
            return frozenset(str(p) for p in t.k_paths(graph, 2, include_potential_paths=False))
        if name == "child_kpaths":
            kp_used = True
            return frozenset(str(p) for c in (t.children or ()) for p in c.k_paths(graph, 2))
        if name == "hash":
            return hash(t)
        if name == "shash":
            return t.structural_hash()
        if name == "len":
            return len(t)
        if name == "open":
            return t.is_open()
        if name == "str":
            return str(t)
        if name == "paths":
            return tuple((p, n.id) for p, n in t.paths())
        if name == "triekeys":
            return tuple(t.trie().keys())

    def check_decoded(d, what, ids=True, gen=0):
        md = TM.snap(d)
        if ids:
            if md != m0:
                return f"{what}: decoded tree differs in structure or ids"
        elif TM.strip_ids(md) != TM.strip_ids(m0):
            return f"{what}: decoded tree differs in structure"
        if str(d) != TM.yield_str(m0, True) or d.to_string(False) != TM.yield_str(m0):
            return f"{what}: decoded string differs"
        if bool(d.is_open()) != TM.is_open(m0):
            return f"{what}: decoded openness differs"
        # derived behaviour of the decoded tree, against a cache-free twin rebuilt from the recorded structure (asking the
        # original would fill its caches and change the history under test)
        ref = to_dt(m0, keep_ids=True) if ids else to_dt(TM.snap(d), keep_ids=True)
        if ids and not (d == ref):
            return f"{what}: decoded tree is not == a tree with the same structure and ids"
        if hash(d) != hash(ref):
            return f"{what}: equal trees with different hashes (decoded {hash(d)}, rebuilt {hash(ref)})"
        if d.structural_hash() != ref.structural_hash() or isinstance(d.structural_hash(), bool):
            return f"{what}: structural_hash of the decoded tree is {d.structural_hash()!r}, of the same structure rebuilt {ref.structural_hash()!r}"
        if len(d) != len(ref):
            return f"{what}: len differs"
        if rng.random() < 0.5:
            kd = frozenset(str(p) for p in d.k_paths(graph, 3))
            kr = frozenset(str(p) for p in ref.k_paths(graph, 3))
            if kd != kr:
                return f"{what}: k_paths of the decoded tree differ from those of the same structure rebuilt"
        if gen == 0 and what != "CLI JSON" and rng.random() < 0.5:
            # second generation: the decoded tree (its caches now filled by the checks above) is serialized again
            how = rng.choice(["pickle", "json"])
            d2 = pickle.loads(pickle.dumps(d)) if how == "pickle" else DerivationTree.from_json(d.to_json())
            return check_decoded(d2, f"{what}, then {how} of the decoded tree", ids=ids, gen=1)
        return None

    for step in range(rng.randint(4, 14)):
        op = rng.choice(["obs", "obs", "pickle", "json", "deepcopy", "clijson"])
        kinds.append(op)
        try:
            if op == "obs":
                name = rng.choice(["kpaths3", "kpaths2c", "child_kpaths", "hash", "shash", "len", "open", "str", "paths", "triekeys"])
                kinds[-1] = name
                v = observe(name)
                if name in obs and obs[name] != v:
                    return ctx.violation(None, f"observation {name} changed after {kinds}", {**wit, "ops": kinds})
                obs[name] = v
            else:
                ctx.count("serializations")
                if op == "pickle":
                    bad = check_decoded(pickle.loads(pickle.dumps(t)), "pickle")
                elif op == "json":
                    bad = check_decoded(DerivationTree.from_json(t.to_json()), "to_json/from_json")
                elif op == "deepcopy":
                    bad = check_decoded(copy.deepcopy(t), "deepcopy")
                else:
                    bad = check_decoded(DerivationTree.from_parse_tree(json.loads(derivation_tree_to_json(t))), "CLI JSON", ids=False)
                if bad:
                    return ctx.violation(None, bad, {**wit, "ops": kinds})
            # original must be undamaged: structure and every earlier observation
            if TM.snap(t) != m0:
                return ctx.violation(None, f"original structure changed by {op}", {**wit, "ops": kinds})
            for name, v in obs.items():
                if observe(name) != v:
                    return ctx.violation(None, f"observation {name} on the original changed after {op}", {**wit, "ops": kinds})
        except RecursionError:
            return ctx.inconclusive("recursion-limit")
        except Exception as e:
            from islamon.worker import exc_site
            key = None
            ser_before = any(k in ("pickle", "json", "deepcopy") for k in kinds)
            if kp_used and ser_before and isinstance(e, (AttributeError, TypeError, ValueError, RecursionError)):
                key = KF_TOJSON   # to_json deletes/chokes on the k-paths caches of the live object
            return ctx.violation(key, f"{kinds[-1]} raised {exc_site(e)}: {str(e)[:80]} after {kinds[:-1]}", {**wit, "ops": kinds})
    ctx.count("tree_histories")
    ctx.held(("t", tuple(kinds), min(len(TM.ids(m0)) // 8, 10)), sample={"grammar": gname, "ops": kinds, "tree": wit["tree"]})


def formula_case(ctx, rng):
    import z3
    from isla.language import SMTFormula, BoundVariable, Constant
    from isla.z3_helpers import z3_eq
    lits = [rng.choice(HOSTILE) for _ in range(rng.randint(1, 2))]
    x, y = BoundVariable("x", "<a>"), Constant("start", "<start>")
    shape = rng.choice(["eq", "concat", "inre", "len"])
    a = x.to_smt()
    if shape == "eq":
        f = z3_eq(a, z3.StringVal(lits[0]))
    elif shape == "concat":
        f = z3_eq(z3.Concat(a, z3.StringVal(lits[0])), y.to_smt())
    elif shape == "inre":
        f = z3.InRe(a, z3.Union(z3.Re(lits[0]), z3.Re(lits[-1]))) if len(lits) > 1 else z3.InRe(a, z3.Re(lits[0]))
    else:
        f = z3.Length(z3.Concat(a, z3.StringVal(lits[0]))) > 2
    vars_ = [x] + ([y] if shape == "concat" else [])
    ctx.ev()
    wit = {"kind": "formula", "shape": shape, "literals": lits}
    try:
        F = SMTFormula(f, *vars_)
    except Exception as e:
        return ctx.inconclusive("formula-constructor-raised")
    key = None
    if any('"' in l for l in lits):
        key = KF_QUOTE
    elif any(ord(c) >= 0x80 for l in lits for c in l):
        key = KF_WIDE
    st, G2 = ctx.guarded(lambda: pickle.loads(pickle.dumps(F)), timeout=20)
    if st == "watchdog":
        return ctx.inconclusive("watchdog")
    if st == "exc":
        return ctx.violation(key, f"pickle round-trip of SMTFormula raises {type(G2).__name__}: {str(G2)[:80]}", wit)
    same = (G2 == F) and G2.formula.sexpr() == F.formula.sexpr()
    if not same:
        return ctx.violation(key, f"unpickled SMTFormula differs: {F.formula.sexpr()[:60]!r} -> {G2.formula.sexpr()[:60]!r}", wit)
    ctx.count("formulas_judged")
    ctx.held(("f", shape, tuple(lits)), sample={"formula": F.formula.sexpr()[:100], "literals": lits})


def run(ctx):
    rng = ctx.rng
    while ctx.running():
        if rng.random() < 0.6:
            ctx.ev()
            hseed = rng.randrange(2 ** 40)
            st, v = ctx.guarded(tree_history, ctx, hseed, timeout=60)
            if st == "watchdog":
                ctx.inconclusive("watchdog")
            elif st == "exc":
                raise v
        else:
            formula_case(ctx, rng)


def replay(ctx, w):
    if w.get("kind") == "formula":
        class R:  # replays the recorded literals
            def __init__(s, seq): s.seq = list(seq)
            def choice(s, xs): return s.seq.pop(0) if xs is HOSTILE else w["shape"] if "eq" in xs else xs[0]
            def randint(s, a, b): return len(w["literals"])
        formula_case(ctx, R(w["literals"]))
    else:
        tree_history(ctx, w["hseed"])
