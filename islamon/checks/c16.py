"""C16: DerivationTree operation histories vs the nested-list model R6."""
import random, json
from islamon.ref.grammar import G, is_nt, canon
from islamon.ref import treemodel as TM
from islamon.gen import grammars as GG

SPEC = {
    "quick": {"shards": 16, "budget_s": 45, "timeout_s": 200},
    "thorough": {"shards": 16, "budget_s": 800, "timeout_s": 1500},
    "rule": "case = one history: a random tree (depth<=8, fan-out up to 60 via wide grammars, open or closed, both epsilon "
            "encodings) followed by 4-25 operations from {replace_path(+-retain_id), substitute, expand_one_step, fuzzer "
            "expansion, new_ids, to/from_parse_tree}, each followed by a random-order subset of observations compared with "
            "the nested-list model (including near-copy pairs - one leaf flipped open<->closed-empty, one label changed, one "
            "child dropped - on which structurally_equal => equal structural_hash is judged in both directions); distinct = distinct (grammar, operation-kind sequence, tree-size bucket) shapes; a "
            "history counts only if >= 1 mutating operation and >= 5 observations were judged; plus an in-situ slice: every 7th "
            "replace_path/substitute call the solver makes itself, result compared with the model and observed",
    "minimum": {"quick": {"judged": 800, "observations": 20000, "ops": 4000, "wide_histories": 30, "near_pairs": 3000, "insitu_ops_judged": 100},
                "thorough": {"judged": 20000, "observations": 500000}},
    "assumptions": ["the model reads DerivationTree.value/.children/.id as ground truth of the structure; every other "
                    "method is an observation", "node ids are unique within every generated history"],
}

KF_TRIE = "C16:trie:child-index>=28"
KF_ROOTITEMS = "C16:trie:root-items-value-path"


class Mismatch(Exception):
    def __init__(self, what, key=None):
        super().__init__(what)
        self.key = key


def eq(a, b, what):
    if a != b:
        raise Mismatch(f"{what}: ISLa {str(a)[:120]!r} != model {str(b)[:120]!r}")


def observe(ctx, t, m, rng, n_obs):
    """t: DerivationTree, m: model of the same tree. Random subset/order of observations."""
    allp = list(TM.walk(m))
    obs = ["tostr", "str", "open", "paths", "get", "validp", "find", "filter", "leaves", "openleaves", "trie", "subtrie",
           "len", "shash", "eqhash", "near", "near", "unjudged"]
    rng.shuffle(obs)
    for o in obs[:n_obs]:
        ctx.count("observations")
        try:
            observe1(ctx, t, m, rng, o, allp)
        except Mismatch as e:
            if e.key is None:
                raise
            ctx.violation(e.key, str(e), {"tree": m if len(allp) < 80 else None, "observation": o})


def observe1(ctx, t, m, rng, o, allp):
    if True:
        if o == "tostr":
            eq(t.to_string(show_open_leaves=False), TM.yield_str(m), "to_string()")
        elif o == "str":
            eq(str(t), TM.yield_str(m, True), "str()")
        elif o == "open":
            eq(bool(t.is_open()), TM.is_open(m), "is_open()")
            eq(bool(t.is_complete()), not TM.is_open(m), "is_complete()")
        elif o == "paths":
            eq([(p, n.id, n.value) for p, n in t.paths()], [(p, n[2], n[0]) for p, n in allp], "paths()")
        elif o == "get":
            for p, n in rng.sample(allp, min(4, len(allp))):
                s = t.get_subtree(p)
                eq((s.id, s.value, TM.snap(s)), (n[2], n[0], n), f"get_subtree({p})")
        elif o == "validp":
            for p, n in rng.sample(allp, min(3, len(allp))):
                eq(t.is_valid_path(p), True, f"is_valid_path({p})")
                bad = p + (len(n[1]) if n[1] else 0,)
                eq(t.is_valid_path(bad), TM.valid_path(m, bad), f"is_valid_path({bad})")
        elif o == "find":
            for p, n in rng.sample(allp, min(4, len(allp))):
                eq(t.find_node(n[2]), p, f"find_node(id at {p})")
            eq(t.find_node(-12345), None, "find_node(absent id)")
        elif o == "filter":
            lbl = rng.choice(allp)[1][0]
            eq([(p, n.id) for p, n in t.filter(lambda x: x.value == lbl)], [(p, n[2]) for p, n in allp if n[0] == lbl], f"filter(label=={lbl})")
        elif o == "leaves":
            eq([(p, n.id) for p, n in t.leaves()], [(p, n[2]) for p, n in allp if not n[1]], "leaves()")
        elif o == "openleaves":
            eq([(p, n.id) for p, n in t.open_leaves()], [(p, n[2]) for p, n in allp if n[1] is None], "open_leaves()")
        elif o == "trie":
            items = t.trie().items()
            got = [(k, k, v[1].id) for k, v in items]
            want = [(p, p, n[2]) for p, n in allp]
            if got != want:
                trie_mismatch(got, want, "trie().items()")
            bad = [(k, v[0]) for k, v in items if tuple(v[0]) != tuple(k)]
            if bad:
                raise Mismatch(f"trie().items(): value path differs from key path, e.g. key {bad[0][0]} -> {bad[0][1]} "
                               f"(docstring: 'the path in the value is the unencoded version of the path in the key')", KF_ROOTITEMS)
            for p, n in rng.sample(allp, min(3, len(allp))):
                if not any(i >= 28 for i in p):
                    v = t.trie()[p]
                    eq((tuple(v[0]), v[1].id), (p, n[2]), f"trie()[{p}]")
            eq(list(t.trie().keys()), [p for p, _ in allp], "trie().keys()")
        elif o == "subtrie":
            p0, n0 = rng.choice(allp)
            got = [(k, tuple(v[0]), v[1].id) for k, v in t.trie().get_subtrie(p0).items()]
            want = [(p, p, n[2]) for p, n in TM.walk(n0)]
            if got != want:
                trie_mismatch(got, want, f"trie().get_subtrie({p0}).items()", prefix=p0)
        elif o == "len":
            eq(len(t), len(allp), "len()")
        elif o == "shash":
            c = t.new_ids()
            if not t.structurally_equal(c):
                raise Mismatch("structurally_equal(new_ids copy) is False")
            eq(c.structural_hash(), t.structural_hash(), "structural_hash of a structurally equal copy")
            from islamon.bridge import to_dt
            c2 = to_dt(TM.strip_ids(m), keep_ids=False)
            eq(c2.structural_hash(), t.structural_hash(), "structural_hash of a rebuilt equal structure")
        elif o == "near":
            # near-copies: one leaf flipped between "open" and "closed with no children", one label changed, one child list
            # shortened. Whatever structurally_equal answers for the pair, "equal" must come with equal structural hashes.
            import copy
            from islamon.bridge import to_dt
            v = copy.deepcopy(TM.strip_ids(m))
            vp = list(TM.walk(v))
            kind = rng.choice(["flip_leaf", "flip_leaf", "relabel", "shorten", "same"])
            if kind == "flip_leaf":
                c = [n for _, n in vp if is_nt(n[0]) and not n[1]]
                if c:
                    n = rng.choice(c)
                    n[1] = [] if n[1] is None else None
            elif kind == "relabel":
                n = rng.choice(vp)[1]
                n[0] = n[0] + "x" if not is_nt(n[0]) else "<" + n[0][1:-1] + "_>"
            elif kind == "shorten":
                c = [n for _, n in vp if n[1]]
                if c:
                    rng.choice(c)[1].pop()
            other = to_dt(v, keep_ids=False)
            same_model = TM.strip_ids(TM.snap(other)) == TM.strip_ids(m)
            for a, b in ((t, other), (other, t)):
                se = a.structurally_equal(b)
                ctx.count("near_pairs")
                if se:
                    ctx.count("near_pairs_equal")
                    eq(a.structural_hash(), b.structural_hash(), f"structurally_equal trees ({kind}) but structural_hash")
                    if not same_model:
                        ctx.count("near_pairs_equal_but_model_differs")
                elif same_model:
                    raise Mismatch(f"structurally_equal False for identical structure ({kind})")
        elif o == "eqhash":
            from islamon.bridge import to_dt
            c = to_dt(m, keep_ids=True)
            if c == t and hash(c) != hash(t):
                raise Mismatch("equal trees with different hash")
            if not (c == t):
                raise Mismatch("__eq__ False for identical structure and ids")
        else:
            try:
                t.depth()
                p = rng.choice(allp)[0]
                t.next_path(p)
                t.is_prefix(t)
                t.is_potential_prefix(t)
            except Exception:
                ctx.count("unjudged_op_raised")


def trie_mismatch(got, want, what, prefix=()):
    gs, ws = set(got), set(want)
    missing, extra = ws - gs, gs - ws
    if not extra and missing and all(any(i >= 28 for i in (tuple(prefix) + tuple(k[0]))) for k in missing) and \
            [x for x in want if x in gs] == got:
        raise Mismatch(f"{what}: {len(missing)} paths with a child index >= 28 are absent from the trie", KF_TRIE)
    raise Mismatch(f"{what}: missing {sorted(missing)[:3]} extra {sorted(extra)[:3]}")


def history(ctx, hseed):
    from islamon.bridge import to_dt
    from isla.derivation_tree import DerivationTree
    from isla.fuzzer import GrammarFuzzer
    from isla.helpers import canonical
    rng = random.Random(hseed)
    names = list(GG.FEATURE)
    gname = rng.choice(names + ["wide31", "wide45", "wide60"])
    g = GG.FEATURE[gname] if rng.random() < 0.8 else GG.random_grammar(rng)
    if g is not GG.FEATURE[gname]:
        gname = "random"
    M = G(g)
    cg = canonical(g)
    from islamon.bridge import cut
    base = M.random_tree(rng, budget=rng.choice([2, 6, 15, 40]))
    if rng.random() < 0.5:
        base = cut(base, rng, ncuts=rng.choice([1, 2, 3]))
    t = to_dt(base, keep_ids=False)
    m = TM.snap(t)
    kinds = []
    nobs = 0
    wide = any(n[1] and len(n[1]) > 28 for _, n in TM.walk(m))
    random.seed(hseed)
    wit = {"hseed": hseed, "grammar_name": gname, "init": t.to_string(show_open_leaves=True)[:200]}
    try:
        observe(ctx, t, m, rng, rng.randint(2, 8))
        for step in range(rng.randint(4, 25)):
            allp = list(TM.walk(m))
            op = rng.choice(["replace", "replace", "replace_retain", "substitute", "expand1", "fuzz", "new_ids", "parse_tree", "observe"])
            if op in ("replace", "replace_retain"):
                cands = [(p, n) for p, n in allp if is_nt(n[0])]
                p, n = rng.choice(cands)
                sub = M.random_tree(rng, start=n[0], budget=rng.choice([1, 5, 12]))
                if rng.random() < 0.4:
                    sub = cut(sub, rng, keep_root=rng.random() < 0.7)
                sdt = to_dt(sub, keep_ids=False)
                if rng.random() < 0.3:
                    sdt.is_open(); sdt.structural_hash()
                sm = TM.snap(sdt)
                retain = op == "replace_retain"
                t2 = t.replace_path(p, sdt, retain_id=retain)
                if retain:
                    sm = [sm[0], sm[1], n[2]]
                m = TM.replace(m, p, sm)
                t = t2
            elif op == "substitute":
                cands = [(p, n) for p, n in allp if is_nt(n[0]) and p]
                if not cands:
                    continue
                p, n = rng.choice(cands)
                sub = to_dt(M.random_tree(rng, start=n[0], budget=rng.choice([1, 5])), keep_ids=False)
                t = t.substitute({t.get_subtree(p): sub})
                m = TM.replace(m, p, TM.snap(sub))
            elif op == "expand1":
                opens = [(p, n) for p, n in allp if n[1] is None]
                if not opens or len(opens) > 4:
                    continue
                res = t.expand_one_step(cg)
                expect = 1
                for p, n in opens:
                    expect *= len(M.cg[n[0]])
                eq(len(res), expect, "expand_one_step: number of results")
                for r in res[:6]:
                    rm = TM.snap(r)
                    for p, n in allp:
                        o = TM.at(rm, p)
                        if o[0] != n[0] or o[2] != n[2]:
                            raise Mismatch(f"expand_one_step changed label/id at {p}")
                        if n[1] is not None and (o[1] is None or len(o[1]) != len(n[1])):
                            raise Mismatch(f"expand_one_step changed arity at {p}")
                        if n[1] is None:
                            labels = tuple(c[0] for c in o[1])
                            if labels not in [a for a in M.cg[n[0]]] and not (labels == () and () in M.cg[n[0]]):
                                raise Mismatch(f"expand_one_step: children {labels} at {p} match no alternative")
                t = rng.choice(res)
                m = TM.snap(t)
            elif op == "fuzz":
                if not TM.is_open(m):
                    continue
                t2 = GrammarFuzzer(g, max_nonterminals=rng.choice([3, 10])).expand_tree(t)
                m2 = TM.snap(t2)
                for p, n in allp:
                    o = TM.at(m2, p)
                    if o[0] != n[0] or (n[1] is not None and (o[2] != n[2] or len(o[1]) != len(n[1]))):
                        raise Mismatch(f"fuzzer expansion changed expanded node at {p}")
                t, m = t2, m2
            elif op == "new_ids":
                t2 = t.new_ids()
                m2 = TM.snap(t2)
                eq(TM.strip_ids(m2), TM.strip_ids(m), "new_ids structure")
                if set(TM.ids(m2)) & set(TM.ids(m)) or len(set(TM.ids(m2))) != len(TM.ids(m2)):
                    raise Mismatch("new_ids reuses ids")
                t, m = t2, m2
            elif op == "parse_tree":
                pt = t.to_parse_tree()
                t2 = DerivationTree.from_parse_tree(pt)
                eq(TM.strip_ids(TM.snap(t2)), TM.strip_ids(m), "to_parse_tree/from_parse_tree structure")
                t, m = t2, TM.snap(t2)
            kinds.append(op)
            ctx.count("ops")
            # the structure ISLa holds must be the model's
            eq(TM.snap(t), m, f"structure after {op}")
            if len(set(TM.ids(m))) != len(TM.ids(m)):
                raise Mismatch(f"duplicate ids after {op}")
            k = rng.randint(1, 7)
            nobs += k
            observe(ctx, t, m, rng, k)
            if len(TM.ids(m)) > 400:
                break
    except Mismatch as e:
        return ctx.violation(e.key, str(e), {**wit, "ops": kinds})
    except RecursionError:
        return ctx.inconclusive("recursion-limit")
    if wide:
        ctx.count("wide_histories")
    mut = [k for k in kinds if k != "observe"]
    if mut and nobs >= 5:
        ctx.held((gname, tuple(kinds), min(len(TM.ids(m)) // 10, 20)),
                 sample={"grammar": gname, "ops": kinds, "final": t.to_string(show_open_leaves=True)[:120], "nodes": len(TM.ids(m))})
    else:
        ctx.inconclusive("trivial-history")


def subst_model(m, items):
    """DerivationTree.substitute as its comments describe it: keys are matched by id; a key whose id occurs inside any
    replacement (other than as that replacement's root) is dropped ("nested" replacements); the rest is applied one after
    the other, each at the first node carrying the key's id"""
    keep = {}
    for kid, sv in items:
        if all(sv2[2] == kid or kid not in TM.ids(sv2) for _, sv2 in items):
            keep[kid] = sv
    res = m
    for kid, sv in keep.items():
        p = next((p for p, n in TM.walk(res) if n[2] == kid), None)
        if p is not None:
            res = TM.replace(res, p, sv)
    return res


def insitu_slice(ctx, rng):
    """replace_path / substitute calls the solver itself makes (every 7th is recorded): result vs the model, then the
    observation battery on the result - cached openness/hash flags are exercised along the solver's own histories"""
    from islamon import insitu
    fam, gname, g, log = insitu.solver_workload(ctx, rng, ["tree_ops"], nsolve=3, random_share=0.3)
    for op, t, args, out in log["tree_ops"][:250]:
        if not ctx.running():
            break
        ctx.ev()
        try:
            m = TM.snap(t)
            if len(set(TM.ids(m))) != len(TM.ids(m)):
                ctx.count("insitu_nonunique_ids_skipped")
                continue
            if op == "replace_path":
                path, repl, retain = args
                sm = TM.snap(repl)
                if retain:
                    sm = [sm[0], sm[1], TM.at(m, path)[2]]
                exp = TM.replace(m, path, sm)
            else:
                from isla.derivation_tree import DerivationTree
                if not all(isinstance(k, DerivationTree) and isinstance(v, DerivationTree) for k, v in args.items()):
                    ctx.count("insitu_substitute_with_variable_keys_skipped")
                    continue
                exp = subst_model(m, [(k.id, TM.snap(v)) for k, v in args.items()])
            got = TM.snap(out)
            eq(got, exp, f"in-situ {op} result structure")
            if TM.snap(t) != m:
                raise Mismatch(f"in-situ {op} changed the receiver")
            if len(set(TM.ids(got))) == len(TM.ids(got)):
                observe(ctx, out, got, rng, 6)
            ctx.count("insitu_ops_judged")
            ctx.held(("in-situ", op, gname, min(len(TM.ids(got)) // 10, 20), TM.is_open(got)),
                     sample={"family": fam, "op": op, "result": out.to_string(show_open_leaves=True)[:100]})
        except Mismatch as e:
            ctx.violation(e.key, str(e) + f" [in situ, {fam}]", {"family": fam, "grammar_name": gname, "op": op, "tree": TM.snap(t) if len(t) < 80 else None})
        except RecursionError:
            ctx.inconclusive("recursion-limit")


def run(ctx):
    while ctx.running():
        if ctx.rng.random() < 0.002:
            insitu_slice(ctx, ctx.rng)
            continue
        ctx.ev()
        hseed = ctx.rng.randrange(2 ** 40)
        st, v = ctx.guarded(history, ctx, hseed, timeout=30)
        if st == "watchdog":
            ctx.inconclusive("watchdog")
        elif st == "exc":
            from islamon.worker import exc_site
            ctx.violation(None, f"tree operation raised {exc_site(v)}: {str(v)[:100]}", {"hseed": hseed})


def replay(ctx, w):
    st, v = ctx.guarded(history, ctx, w["hseed"], timeout=60)
    if st == "exc":
        ctx.violation(None, f"tree operation raised {v!r}", w)
