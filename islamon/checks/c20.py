"""C20: bundled semantic predicates decide their documented relation on closed argument trees."""
import json
from islamon.ref.grammar import G, tstr, nodes, lab, kids, to_list

SPEC = {
    "quick": {"shards": 16, "budget_s": 40, "timeout_s": 200},
    "thorough": {"shards": 16, "budget_s": 600, "timeout_s": 1200},
    "rule": "case = (predicate, closed argument trees, numeric arguments): count on trees with 0..10 needles (nested needles, "
            "needle == root label, literal / tree / variable count argument); octal_to_decimal on octal/decimal numeral trees "
            "(both closed, or one side a variable); ljust/rjust(_crop), extend_crop, crop with widths 0..12 around the actual "
            "length and fill characters from the grammar. Judged: TRUE/FALSE exactly per the relation; every proposed "
            "replacement is a valid tree for the argument's nonterminal satisfying the relation. distinct = distinct "
            "(predicate, argument strings, numeric args, outcome class); plus an in-situ slice: the count(...) calls the solver "
            "and its check() make themselves on documented count families",
    "minimum": {"quick": {"count_judged": 1000, "octal_judged": 500, "just_judged": 1000, "crop_judged": 300, "proposals_judged": 500, "width_zero_judged": 50, "insitu_closed_judged": 10},
                "thorough": {"count_judged": 20000, "octal_judged": 10000, "just_judged": 20000, "crop_judged": 6000}},
    "assumptions": ["calls outside a predicate's documented domain (non-crop just with len > width, extend_crop on non-homogeneous "
                    "strings, fill characters the nonterminal cannot derive) are executed but only recorded",
                    "R1 tree validity for proposals"],
}

TEXT_G = {"<start>": ["<rec>"], "<rec>": ["<field>;<num>", "<nfield>;<num>"], "<field>": ["<c>", "<c><field>"], "<nfield>": ["", "<c><nfield>"], "<c>": ["a", "b", " ", "0", "\x00"],
          "<num>": ["<d>", "<d><num>"], "<d>": list("0123456789")}
NUM_G = {"<start>": ["<octal_digits>=<decimal_digits>"], "<octal_digits>": ["<octal_digit>", "<octal_digit><octal_digits>"],
         "<octal_digit>": list("01234567"), "<decimal_digits>": ["<decimal_digit>", "<decimal_digit><decimal_digits>"],
         "<decimal_digit>": list("0123456789")}
COUNT_G = {"<start>": ["<l>"], "<l>": ["<x><l>", "<x>"], "<x>": ["a", "b", "(<l>)", "<y>"], "<y>": ["c", "<x>c"]}

KF_OCTAL = "C20:octal_to_decimal:both-trees-wrong-direction"


def parse_as(g, nt, s):
    """closed DerivationTree for s rooted at nt (via ISLa's parser, then checked by R1)"""
    from isla.parser import EarleyParser
    from isla.derivation_tree import DerivationTree
    g2 = {**g, "<start>": [nt]}
    t = DerivationTree.from_parse_tree(next(EarleyParser(g2).parse(s))).children[0]
    assert G(g).valid_tree(t, nt, allow_open=False) is None and tstr(t) == s
    return t


def outcome(r):
    return "TRUE" if r.true() else "FALSE" if r.false() else "NOTREADY" if not r.ready() else "PROPOSAL"


def judge_count(ctx, graph, rng):
    from isla.isla_predicates import COUNT_PREDICATE
    from isla.language import BoundVariable
    from isla.derivation_tree import DerivationTree
    from islamon.bridge import to_dt
    m = G(COUNT_G)
    t = to_dt(m.random_tree(rng, budget=rng.choice([3, 8, 20, 40]), eps_style="empty"), keep_ids=False)
    sub = rng.choice([n for _, n in nodes(t) if lab(n).startswith("<")])
    needle = rng.choice(["<x>", "<l>", "<y>", lab(sub), "<start>"])
    occ = sum(1 for _, n in nodes(sub) if lab(n) == needle)
    mode = rng.choice(["str", "tree", "var"])
    num = rng.choice([occ, occ, occ + 1, max(0, occ - 1), 0, rng.randint(0, 12)])
    arg = str(num) if mode == "str" else DerivationTree(str(num), []) if mode == "tree" else BoundVariable("n", "NUM")
    ctx.ev()
    wit = {"pred": "count", "tree": to_list(sub), "needle": needle, "num": num, "mode": mode}
    st, r = ctx.guarded(COUNT_PREDICATE.evaluate, graph, sub, needle, arg, timeout=20)
    if st != "ok":
        return ctx.inconclusive("watchdog") if st == "watchdog" else ctx.violation(None, f"count raises {type(r).__name__}: {str(r)[:80]}", wit)
    o = outcome(r)
    if mode == "var":
        if o != "PROPOSAL" or list(r.result.keys()) != [arg] or str(r.result[arg].value) != str(occ):
            return ctx.violation(None, f"count with variable: {r} but the needle occurs {occ} times", wit)
        ctx.count("proposals_judged")
    else:
        exp = "TRUE" if occ == num else "FALSE"
        if o != exp:
            return ctx.violation(None, f"count: {o}, occurrences {occ}, requested {num}", wit)
    ctx.count("count_judged")
    ctx.held(("count", needle, mode, occ == num, min(occ, 6)), sample={"pred": "count", "tree": str(sub), "needle": needle, "num": num, "occ": occ, "result": str(r)})


def judge_octal(ctx, rng):
    from isla.isla_predicates import OCTAL_TO_DEC_PREDICATE
    from isla.language import BoundVariable
    import grammar_graph.gg as gg
    graph = gg.GrammarGraph.from_grammar(NUM_G)
    pred = OCTAL_TO_DEC_PREDICATE(graph, "<octal_digits>", "<decimal_digits>")
    m = G(NUM_G)
    n = rng.choice([0, 1, 7, 8, 9, 15, 63, 64, 511, 512, rng.randint(0, 5000)])
    os_ = ("0" * rng.choice([0, 0, 1, 2])) + oct(n)[2:]
    d = rng.choice([n, n, n, int(oct(n)[2:]), n + 1, rng.randint(0, 5000)])
    ds = ("0" * rng.choice([0, 0, 1])) + str(d)
    mode = rng.choice(["both", "both", "octal_var", "decimal_var"])
    ot, dt = parse_as(NUM_G, "<octal_digits>", os_), parse_as(NUM_G, "<decimal_digits>", ds)
    ov, dv = BoundVariable("o", "<octal_digits>"), BoundVariable("d", "<decimal_digits>")
    args = (ot, dt) if mode == "both" else (ov, dt) if mode == "octal_var" else (ot, dv)
    ctx.ev()
    wit = {"pred": "octal_to_decimal", "octal": os_, "decimal": ds, "mode": mode}
    st, r = ctx.guarded(pred.evaluate, graph, *args, timeout=20)
    if st != "ok":
        return ctx.inconclusive("watchdog") if st == "watchdog" else ctx.violation(None, f"octal_to_decimal raises {type(r).__name__}: {str(r)[:80]}", wit)
    o = outcome(r)
    if mode == "both":
        exp = "TRUE" if int(os_, 8) == int(ds) else "FALSE"
        if o != exp:
            # known mechanism: reads the octal digits as a decimal number and converts the wrong way
            buggy = "TRUE" if int(oct(int(os_))[2:]) == int(ds) else "FALSE"
            return ctx.violation(KF_OCTAL if o == buggy else None, f"octal_to_decimal({os_}, {ds}) = {o}, expected {exp}", wit)
    else:
        if o != "PROPOSAL":
            return ctx.violation(None, f"octal_to_decimal with a variable: {o}", wit)
        (k, v), = r.result.items()
        if mode == "octal_var":
            bad = m.valid_tree(v, "<octal_digits>", allow_open=False) or (None if int(tstr(v), 8) == int(ds) else f"proposed {tstr(v)} is not {ds} in octal")
        else:
            bad = m.valid_tree(v, "<decimal_digits>", allow_open=False) or (None if int(tstr(v)) == int(os_, 8) else f"proposed {tstr(v)} is not the value of octal {os_}")
        if bad:
            return ctx.violation(None, f"octal_to_decimal proposal: {bad}", {**wit, "proposal": to_list(v)})
        ctx.count("proposals_judged")
    ctx.count("octal_judged")
    ctx.held(("octal", mode, o, len(os_), len(ds)), sample={**wit, "result": str(r)})


def judge_just(ctx, graph, rng):
    from isla import isla_predicates as P
    from isla.derivation_tree import DerivationTree
    m = G(TEXT_G)
    name = rng.choice(["ljust", "rjust", "ljust_crop", "rjust_crop", "extend_crop", "crop"])
    homogeneous = name == "extend_crop" or rng.random() < 0.3
    L = rng.randint(1, 8)
    s = rng.choice("ab 0") * L if homogeneous else "".join(rng.choice(["a", "b", " ", "0", "\x00"]) for _ in range(L))
    width = max(0, L + rng.choice([0, 0, 0, 1, 2, 4, -1, -2, -L]))
    fill = rng.choice(["a", " ", "0", "\x00", "b"])
    nt = "<nfield>" if rng.random() < 0.4 else "<field>"     # <nfield> is nullable: width 0 is then inside the domain of the crop variants
    if nt == "<nfield>" and rng.random() < 0.3:
        width = 0
    t = parse_as(TEXT_G, nt, s)
    ctx.ev()
    wit = {"pred": name, "s": s, "width": width, "fill": fill, "nonterminal": nt}
    pred = {"ljust": P.LJUST_PREDICATE, "rjust": P.RJUST_PREDICATE, "ljust_crop": P.LJUST_CROP_PREDICATE, "rjust_crop": P.RJUST_CROP_PREDICATE,
            "extend_crop": P.EXTEND_CROP_PREDICATE, "crop": P.CROP_PREDICATE}[name]
    if name == "crop":
        args = (t, DerivationTree(str(width), []))
    elif name == "extend_crop":
        args = (t, width)
    else:
        args = (t, width, fill)
    in_domain = not (name in ("ljust", "rjust") and L > width) and not (name in ("crop", "ljust_crop", "rjust_crop", "extend_crop") and width == 0 and nt != "<nfield>")
    st, r = ctx.guarded(pred.evaluate, graph, *args, timeout=20)
    if st == "watchdog":
        return ctx.inconclusive("watchdog")
    if st == "exc":
        if not in_domain:
            ctx.count("outside_domain_raised")
            return
        return ctx.violation(None, f"{name}({s!r}, {width}, {fill!r}) raises {type(r).__name__}: {str(r)[:80]}", wit)
    o = outcome(r)
    holds = (L <= width) if name == "crop" else (L == width)
    if holds != (o == "TRUE") or o in ("FALSE", "NOTREADY"):
        if not in_domain:
            ctx.count("outside_domain_answer")
            return
        return ctx.violation(None, f"{name}({s!r}, width {width}): {o}, length {L}", wit)
    if o == "PROPOSAL":
        (k, v), = r.result.items()
        vs = tstr(v)
        bad = m.valid_tree(v, nt, allow_open=False)
        if not bad and k.id != t.id:
            bad = "proposal is not for the argument tree"
        if not bad and len(vs) != width:
            bad = f"proposed string {vs!r} has length {len(vs)} != width {width}"
        if not bad:
            f = s[0] if name == "extend_crop" else fill
            want = {"ljust": s.ljust(width, f), "rjust": s.rjust(width, f), "ljust_crop": s.ljust(width, f)[:width], "extend_crop": s.ljust(width, f)[:width],
                    "rjust_crop": s.rjust(width, f)[max(0, len(s.rjust(width, f)) - width):], "crop": s[:width]}[name]
            if vs != want:
                bad = f"proposed {vs!r}, documented justification gives {want!r}"
        if bad:
            if not in_domain:
                ctx.count("outside_domain_answer")
                return
            return ctx.violation(None, f"{name} proposal: {bad}", {**wit, "proposal": to_list(v)})
        ctx.count("proposals_judged")
    ctx.count("crop_judged" if name == "crop" else "just_judged")
    if width == 0:
        ctx.count("width_zero_judged")
    ctx.held((name, nt, L, width, fill if name not in ("crop", "extend_crop") else "", o), sample={**wit, "result": str(r)[:80]})


def insitu_slice(ctx, rng):
    """count(...) calls the solver itself makes while solving the documented count families: closed argument trees are
    judged exactly; a proposed completion of an open tree must hold exactly the requested number of needles"""
    from islamon import insitu
    from isla.derivation_tree import DerivationTree
    from isla.language import Variable
    fam, gname, g, log = insitu.solver_workload(ctx, rng, ["sem_pred"], nsolve=3, random_share=0.15,
                                                families={"count-literal", "count-existsint", "count-nest", "conj", "disj", "lines-count"})
    m = G(g)
    seen = set()
    for name, graph, args, negate, r in log["sem_pred"][:400]:
        if name != "count" or negate or len(args) != 3 or not isinstance(args[0], DerivationTree) or not isinstance(args[1], str):
            ctx.count("insitu_not_judged")
            continue
        in_tree, needle, num = args
        occ = sum(1 for _, n in nodes(in_tree) if lab(n) == needle)
        closed = all(kids(n) is not None for _, n in nodes(in_tree))
        numv = None if isinstance(num, Variable) else (num if isinstance(num, str) else num.value)
        sig = (str(in_tree), closed, needle, numv)
        if sig in seen:
            continue
        seen.add(sig)
        ctx.ev()
        o = outcome(r)
        wit = {"pred": "count", "in_situ": fam, "grammar": g, "tree": to_list(in_tree), "needle": needle, "num": numv}
        if closed:
            if numv is None:
                (k, v), = r.result.items() if o == "PROPOSAL" else [(None, None)]
                if o != "PROPOSAL" or str(v.value) != str(occ):
                    ctx.violation(None, f"count with variable [in situ]: {r} but the needle occurs {occ} times", wit)
                    continue
            else:
                try:
                    exp = "TRUE" if occ == int(numv) else "FALSE"
                except ValueError:
                    continue
                if o != exp:
                    ctx.violation(None, f"count [in situ]: {o}, occurrences {occ}, requested {numv}", wit)
                    continue
            ctx.count("insitu_closed_judged")
            ctx.held(("count", "in-situ-closed", gname, needle, o))
        elif o == "PROPOSAL" and numv is not None:
            (k, v), = r.result.items()
            got = sum(1 for _, n in nodes(v) if lab(n) == needle)
            bad = m.valid_tree(v, lab(in_tree), allow_open=True)
            if bad or got != int(numv):
                ctx.violation(None, f"count proposal [in situ]: {bad or f'{got} needles, requested {numv}'}", {**wit, "proposal": to_list(v)})
                continue
            ctx.count("insitu_proposals_judged")
            ctx.held(("count", "in-situ-proposal", gname, needle, min(got, 6)))
        else:
            ctx.count("insitu_open_not_judged")


def run(ctx):
    import grammar_graph.gg as gg
    rng = ctx.rng
    cgraph = gg.GrammarGraph.from_grammar(COUNT_G)
    tgraph = gg.GrammarGraph.from_grammar(TEXT_G)
    while ctx.running():
        x = rng.random()
        if rng.random() < 0.0006:
            insitu_slice(ctx, rng)
        elif x < 0.35:
            judge_count(ctx, cgraph, rng)
        elif x < 0.55:
            judge_octal(ctx, rng)
        else:
            judge_just(ctx, tgraph, rng)


def replay(ctx, w):
    import random
    ctx.inconclusive("replay re-runs the generator; use the seed/shard in the witness")
