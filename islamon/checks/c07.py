"""C07: unparse_isla(parse_isla(s)) parses back to an equal constraint; idempotent text; same verdicts."""
import json, re
from islamon.ref.grammar import G
from islamon.ref import semantics as R2
from islamon.gen import grammars as GG, sugar as SU
from islamon.gen.formulas import FGen
from islamon.gen.smtatoms import HOSTILE

SPEC = {
    "quick": {"shards": 16, "budget_s": 50, "timeout_s": 260},
    "thorough": {"shards": 16, "budget_s": 900, "timeout_s": 1600},
    "rule": "case = constraint text accepted by parse_isla: reference ASTs printed in core and in sugared syntax (free "
            "nonterminals incl. <start>, omitted names / 'in start', XPath with 1-2 segments and '..', infix/prefix SMT, derived "
            "connectives, match expressions, numeric quantifiers, predicates with string/int arguments) plus single-atom "
            "constraints whose string literals come from the hostile pool (quotes, backslashes, newlines, regex "
            "metacharacters, non-ASCII). Judged: the unparsed text parses, equals the first formula, unparses to the same text "
            "again, and both formulas get the same verdict on 3 trees. distinct = distinct (grammar, surface kind, skeleton)",
    "minimum": {"quick": {"roundtrips_judged": 1200, "kind_xpath": 100, "kind_hostile_literal": 150, "kind_plain": 200, "verdict_comparisons": 2500},
                "thorough": {"roundtrips_judged": 30000, "kind_hostile_literal": 4000}},
    "assumptions": ["only constraints accepted by the first parse_isla are in scope", "ISLa's own evaluate on both sides"],
}

KF_NONASCII = "C07:string-literal:non-ascii-corrupted-by-first-parse"
KF_MEXPR_QUOTE = "C07:match-expression:quote-not-escaped-on-unparse"
KF_START = "C07:free-start-nonterminal:fresh-name-clashes-with-constant"
KF_DUP = "C07:duplicated-subformula:numeric-bound-variable-not-renamed"
KF_SMT_NEG = "C07:smt-atom:z3-simplification-not-stable-under-reparse"
KF_MEXPR_SEG = "C07:xpath-generated-match-expression:terminal-segmentation"
KF_BRACKET = "C07:match-expression:bracket-terminal-unparsed-as-optional"
KF_SMT_BOOL = "C07:smt-atom:z3-simplified-boolean-structure-unparseable"
KF_ALPHA = "C07:xpath:fresh-name-reused-across-alternatives"
KF_NEG = "C07:smtformula-neg:simplified-away-variable"
CORPUS = ["assgn", "assgn2", "nest", "expr", "eps", "nestlist", "numeral", "padnum", "nullchain", "leftrec"]
QUOTE_G = {"<start>": ["<r>"], "<r>": ["<k>=<q>", "<k>"], "<k>": ["a", "b<k>"], "<q>": ['"<k>"', "'<k>'", "\\<k>"]}


def ev3(ctx, formula, tree, g):
    from isla.evaluator import evaluate
    from isla.isla_predicates import STANDARD_STRUCTURAL_PREDICATES as SP, STANDARD_SEMANTIC_PREDICATES as MP
    st, r = ctx.guarded(evaluate, formula, tree, g, structural_predicates=SP, semantic_predicates=MP, timeout=20)
    if st == "watchdog":
        return "TO"
    if st == "exc":
        return "EXC " + type(r).__name__
    return "T" if r.is_true() else "F" if r.is_false() else "U"


def relaxed_equal(a, b, notes, ren=None):
    """structural equality up to (i) logically equivalent SMT atoms (Z3), (ii) match expressions with the same text but a
    different segmentation of their terminal elements, (iii) consistent renaming of bound variables (ren: name in b -> name
    in a). notes collects which relaxations were needed."""
    from isla import language as L
    from islamon.ref import z3oracle as R4
    ren = {} if ren is None else ren

    def same_var(x, y):
        if isinstance(x, L.Variable) and isinstance(y, L.Variable):
            return x.n_type == y.n_type and type(x) is type(y) and ren.get(y.name, y.name) == x.name
        return x == y

    def rn(text):
        return re.sub(r"[A-Za-z_][\w\-.]*", lambda mm: ren.get(mm.group(0), mm.group(0)), text) if ren else text
    if type(a) is not type(b):
        return False
    if isinstance(a, L.SMTFormula):
        sa, sb = a.formula.sexpr().replace("\n", " "), rn(b.formula.sexpr().replace("\n", " "))
        if sa == sb:
            return True
        names = sorted({v.name for v in a.free_variables()} | {ren.get(v.name, v.name) for v in b.free_variables()})
        notes.add("smt")
        return R4.truth(f"(= {sa} {sb})", 5000, decls=names) is True
    if isinstance(a, L.QuantifiedFormula):
        if not same_var(a.in_variable, b.in_variable) or a.bound_variable.n_type != b.bound_variable.n_type:
            return False
        ren = dict(ren)
        if a.bound_variable.name != b.bound_variable.name:
            ren[b.bound_variable.name] = a.bound_variable.name
            notes.add("alpha")
        if (a.bind_expression is None) != (b.bind_expression is None):
            return False
        if a.bind_expression is not None:
            ea, eb = a.bind_expression.bound_elements, b.bind_expression.bound_elements
            va = [e for e in ea if not isinstance(e, L.DummyVariable)]
            vb = [e for e in eb if not isinstance(e, L.DummyVariable)]
            if len(va) != len(vb) or any(x.n_type != y.n_type for x, y in zip(va, vb)):
                return False
            for x, y in zip(va, vb):
                if x.name != y.name:
                    ren[y.name] = x.name
                    notes.add("alpha")
            flat = lambda es: "".join("{%s}" % e.n_type if not isinstance(e, L.DummyVariable) else e.n_type for e in es)
            if flat(ea) != flat(eb):
                return False
            if [type(e) for e in ea] != [type(e) for e in eb] or len(ea) != len(eb):
                notes.add("mexpr")
        return relaxed_equal(a.inner_formula, b.inner_formula, notes, ren)
    if isinstance(a, L.NumericQuantifiedFormula):
        ren = dict(ren)
        if a.bound_variable.name != b.bound_variable.name:
            ren[b.bound_variable.name] = a.bound_variable.name
            notes.add("alpha")
        return relaxed_equal(a.inner_formula, b.inner_formula, notes, ren)
    if isinstance(a, L.PropositionalCombinator):
        return len(a.args) == len(b.args) and all(relaxed_equal(x, y, notes, ren) for x, y in zip(a.args, b.args))
    if isinstance(a, (L.StructuralPredicateFormula, L.SemanticPredicateFormula)):
        return a.predicate == b.predicate and len(a.args) == len(b.args) and all(same_var(x, y) for x, y in zip(a.args, b.args))
    return a == b


def judge(ctx, gname, g, m, text, kind, skel, rng, meta=None):
    from isla.language import parse_isla, unparse_isla
    from isla.isla_predicates import STANDARD_STRUCTURAL_PREDICATES as SP, STANDARD_SEMANTIC_PREDICATES as MP
    from islamon.bridge import to_dt
    ctx.ev()
    st, f1 = ctx.guarded(parse_isla, text, g, SP, MP, timeout=20)
    if st != "ok":
        ctx.count("first_parse_rejected:" + (type(f1).__name__ if st == "exc" else "watchdog"))
        return ctx.inconclusive("first-parse-rejected")
    wit = {"grammar": g, "text": text, "kind": kind}
    meta = meta or {}

    def known(exc=None):
        if meta.get("non_ascii"):
            return KF_NONASCII
        if meta.get("mexpr_quote"):
            return KF_MEXPR_QUOTE
        if exc is not None and "does not match actual number of symbols" in str(exc):
            return KF_NEG
        if exc is not None:
            mm = re.search(r"Variable (\w+) already declared", str(exc))
            if (mm and re.search(rf"\bint {mm.group(1)}\b", text)) or "'ForallIntContext' object has no attribute 'varId'" in str(exc):
                # a sub-formula was duplicated (xor / iff / one copy per XPath alternative): tree-quantifier variables are
                # renamed in the copy, numeric-quantifier variables are not
                return KF_DUP
        if exc is not None and type(exc).__name__ == "ParseCancellationException" and re.search(r"\((or|and) \(", wit.get("unparsed") or ""):
            return KF_SMT_BOOL
        if exc is not None and re.search(r'="[^"\n]*(\[|\{(?!<))', wit.get("unparsed") or "") and any(
                "[" in a or "{" in a for alts in g.values() for a in alts):
            return KF_BRACKET
        return None

    def start_clash():
        # mechanism repaired in the repository (fixed: f7df95c); named only so that a return of it is reported under its name
        return KF_START if re.search(r"<start>", text) and ("forall <start> start" in (wit.get("unparsed") or "") or "exists <start> start" in (wit.get("unparsed") or "")) else None
    st, u = ctx.guarded(unparse_isla, f1, timeout=20)
    if st != "ok":
        return ctx.inconclusive("watchdog") if st == "watchdog" else ctx.violation(known(u), f"unparse_isla raises {type(u).__name__}: {str(u)[:80]}", wit)
    wit["unparsed"] = u
    st, f2 = ctx.guarded(parse_isla, u, g, SP, MP, timeout=20)
    if st == "watchdog":
        return ctx.inconclusive("watchdog")
    if st == "exc":
        return ctx.violation(known(f2) or start_clash(), f"unparsed text does not parse: {type(f2).__name__}: {str(f2)[:80]}", wit)
    if not (f1 == f2):
        key = known()
        if key is None:
            notes = set()
            if relaxed_equal(f1, f2, notes) and notes:
                key = KF_ALPHA if "alpha" in notes and kind == "xpath" else KF_SMT_NEG if "smt" in notes else KF_MEXPR_SEG if notes == {"mexpr"} else None
        return ctx.violation(key or start_clash(), "re-parsed constraint is not equal to the first one", wit)
    st, u2 = ctx.guarded(unparse_isla, f2, timeout=20)
    if st != "ok" or u2 != u:
        return ctx.violation(known() or start_clash(), "unparsing the re-parsed constraint gives a different text", {**wit, "unparsed2": str(u2)[:300]})
    for _ in range(3):
        tl = m.random_tree(rng, budget=rng.choice([3, 8, 20]), eps_style="empty")
        t = to_dt(tl)
        a, b = ev3(ctx, f1, t, g), ev3(ctx, f2, t, g)
        if "TO" in (a, b) or "U" in (a, b):
            continue
        ctx.count("verdict_comparisons")
        if a != b:
            return ctx.violation(known() or start_clash(), f"verdicts differ: first {a}, re-parsed {b}", {**wit, "tree": tl})
    ctx.count("roundtrips_judged")
    ctx.count("kind_" + kind)
    ctx.held((gname, kind, skel), sample={"text": text[:200], "unparsed": u[:200], "kind": kind})


def hostile_case(gen, rng, g):
    nt = rng.choice(sorted(gen.reach["<start>"]))
    lit = rng.choice(HOSTILE)
    v = gen.fresh("q")
    shape = rng.random()
    esc = lit.replace('"', '\\"')
    if "\\" in lit and rng.random() < 0.5:
        esc = lit.replace("\\", "\\\\").replace('"', '\\"')
    if shape < 0.5:
        text = f'forall {nt} {v} in start: (= {v} "{esc}")'
    elif shape < 0.75:
        text = f'exists {nt} {v} in start: (str.in_re {v} (re.++ (str.to_re "{esc}") (re.* (re.range "a" "z"))))'
    else:
        text = f'forall {nt} {v}: str.len({v}) > str.len("{esc}")'
    return text, {"non_ascii": any(ord(c) >= 0x80 for c in lit)}


def run(ctx):
    rng = ctx.rng
    while ctx.running():
        x = rng.random()
        gname = rng.choice(CORPUS) if x < 0.8 else ("quote" if x < 0.88 else "random")
        g = GG.FEATURE[gname] if gname in GG.FEATURE else QUOTE_G if gname == "quote" else GG.random_grammar(rng, max_nts=4)
        m = G(g)
        gen = FGen(g, rng, m)
        for _ in range(4):
            r = rng.random()
            meta = {}
            if r < 0.2:
                text, meta = hostile_case(gen, rng, g)
                kind, skel = "hostile_literal", text[:30]
            else:
                f, kind = SU.gen_ext(gen, rng)
                fresh = SU.Fresh(gen)
                try:
                    core = SU.desugar(f, gen.cg, fresh)
                except SU.Unsupported:
                    continue
                skel = R2.skeleton(core)
                if rng.random() < 0.4:
                    text, kind = R2.pr(core), "core_" + kind
                else:
                    text = SU.ps(f, rng, SU.choose_opts(f, rng, kind))
                if gname == "quote" and any(q[0] in ("forall", "exists") and q[4] and '"' in q[4][0] for q in R2.subformulas(core)):
                    meta["mexpr_quote"] = True
            st, v = ctx.guarded(judge, ctx, gname, g, m, text, kind.replace("core_", "") if kind.startswith("core_") else kind, skel, rng, meta, timeout=120)
            if st == "watchdog":
                ctx.inconclusive("watchdog")
            elif st == "exc":
                raise v


def replay(ctx, w):
    import random
    g = w["grammar"]
    judge(ctx, "replay", g, G(g), w["text"], w["kind"], "replay", random.Random(0))
