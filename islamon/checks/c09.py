"""C09: negation, NNF, DNF, bound-variable renaming and the and/or combinators preserve meaning."""
import json
from islamon.ref.grammar import G
from islamon.ref import semantics as R2
from islamon.gen import grammars as GG
from islamon.gen.formulas import FGen

SPEC = {
    "quick": {"shards": 16, "budget_s": 50, "timeout_s": 260},
    "thorough": {"shards": 16, "budget_s": 900, "timeout_s": 1600},
    "rule": "case = (formula object parsed from a generated constraint, 2 closed trees, rewrite): rewrites = negation, NNF, "
            "NNF of the negation, DNF (deep and shallow) of the NNF, ensure_unique_bound_variables, x&x, x|-x, x&-x, x&y, x|y, "
            "ensure_unique_bound_variables of x&y, y&x, y|x and of an n-ary conjunction (with a slice of formula pairs whose sibling "
            "quantifiers reuse a name while quantifiers nested 2-3 levels further in carry the next fresh names v_0, v_1), "
            "n-ary ConjunctiveFormula/DisjunctiveFormula built with the public constructors (3-4 arguments, containing "
            "disjunctions) followed by NNF/DNF. Judged with ISLa's own evaluator on both sides: verdict inverted by negation, "
            "unchanged by the others, conjunction/disjunction tables; no rewrite raises. distinct = distinct (grammar, formula "
            "skeleton, rewrite)",
    "minimum": {"quick": {"rewrite_verdicts_judged": 4000, "formulas": 100, "rw_dnf_nary": 100, "rw_neg": 150, "rw_uniq": 150, "base_true": 80, "base_false": 80, "rename_cases": 20},
                "thorough": {"rewrite_verdicts_judged": 75000, "formulas": 1600}},
    "assumptions": ["ISLa's own evaluate on both sides, as the property states; R2 on the original AST is recorded to separate "
                    "a rewrite defect from an evaluator defect", "base verdict UNKNOWN => the tree is not used"],
}

KF_DNF_NARY = "C09:convert_to_dnf:n-ary-conjunction-unpacked-as-pair"
KF_NEG = "C09:smtformula-neg:simplified-away-variable"
CORPUS = ["assgn", "assgn2", "nest", "expr", "eps", "nestlist", "numeral", "padnum", "nullchain", "leftrec"]


def ev3(ctx, formula, tree, g):
    from isla.evaluator import evaluate
    from isla.isla_predicates import STANDARD_STRUCTURAL_PREDICATES as SP, STANDARD_SEMANTIC_PREDICATES as MP
    st, r = ctx.guarded(evaluate, formula, tree, g, structural_predicates=SP, semantic_predicates=MP, timeout=20)
    if st == "watchdog":
        return "TO"
    if st == "exc":
        return "EXC " + type(r).__name__ + (":nif" if "not_implemented_failure" in str(r) else "")
    return "T" if r.is_true() else "F" if r.is_false() else "U"


def judge(ctx, gname, g, m, f_ast, f2_ast, rng):
    from isla import language as L
    from isla.isla_predicates import STANDARD_STRUCTURAL_PREDICATES as SP, STANDARD_SEMANTIC_PREDICATES as MP
    from islamon.bridge import to_dt
    text, text2 = R2.pr(f_ast), R2.pr(f2_ast)
    ctx.ev()
    st, x = ctx.guarded(L.parse_isla, text, g, SP, MP, timeout=20)
    st2, y = ctx.guarded(L.parse_isla, text2, g, SP, MP, timeout=20)
    if st != "ok" or st2 != "ok":
        return ctx.inconclusive("parse-rejected")
    ctx.count("formulas")
    nnf = L.convert_to_nnf
    rewrites = [
        ("neg", lambda: -x, "inv"), ("nnf", lambda: nnf(x), "same"), ("nnf_neg", lambda: nnf(-x), "inv"),
        ("dnf", lambda: L.convert_to_dnf(nnf(x)), "same"), ("dnf_shallow", lambda: L.convert_to_dnf(nnf(x), deep=False), "same"),
        ("uniq", lambda: L.ensure_unique_bound_variables(x), "same"), ("uniq_and_self", lambda: L.ensure_unique_bound_variables(x & x), "same"),
        ("uniq_and_xy", lambda: L.ensure_unique_bound_variables(x & y), "and"), ("uniq_and_yx", lambda: L.ensure_unique_bound_variables(y & x), "and"),
        ("uniq_or_yx", lambda: L.ensure_unique_bound_variables(y | x), "or"),
        ("uniq_nary", lambda: L.ensure_unique_bound_variables(L.ConjunctiveFormula(y, x, y)), "and"),
        ("and_self", lambda: x & x, "same"), ("or_neg", lambda: x | -x, "T"), ("and_neg", lambda: x & -x, "F"),
        ("absorb_or", lambda: x | (x & y), "same"), ("absorb_or_rev", lambda: (y & x) | x, "same"), ("absorb_and", lambda: x & (x | y), "same"),
        ("absorb_or_nary", lambda: y | L.ConjunctiveFormula(x, y, x), "y"), ("absorb_neg_nnf", lambda: nnf(-(x & (y | x))), "inv"),
        ("absorb_dnf", lambda: L.convert_to_dnf(nnf(x & (x | y))), "same"),
        ("and_xy", lambda: x & y, "and"), ("or_xy", lambda: x | y, "or"),
        ("nary_and", lambda: L.ConjunctiveFormula(x, y, x), "and"), ("nary_or", lambda: L.DisjunctiveFormula(x, y, x), "or"),
        ("dnf_nary", lambda: L.convert_to_dnf(nnf(L.ConjunctiveFormula(x, y | x, x | -y))), "same_x_and_(y|x)"),
        ("dnf_nary_direct", lambda: L.convert_to_dnf(L.ConjunctiveFormula(nnf(x), nnf(y) | nnf(x), nnf(x) | nnf(-y))), "same_x_and_(y|x)"),
        ("nnf_nary", lambda: nnf(-L.DisjunctiveFormula(x, y, -x)), "F"),
    ]
    built = {}
    for name, fn, exp in rewrites:
        st, v = ctx.guarded(fn, timeout=30)
        if st == "watchdog":
            ctx.inconclusive("rewrite-watchdog")
            continue
        if st == "exc":
            key = None
            if name in ("dnf_nary", "dnf_nary_direct") and isinstance(v, ValueError) and "unpack" in str(v):
                key = KF_DNF_NARY
            elif "does not match actual number of symbols" in str(v):
                key = KF_NEG
            ctx.violation(key, f"rewrite {name} raises {type(v).__name__}: {str(v)[:80]}", {"grammar": g, "x": text, "y": text2, "rewrite": name})
            continue
        built[name] = (v, exp)
    for _ in range(2):
        tl = m.random_tree(rng, budget=rng.choice([3, 8, 20]), eps_style="empty")
        t = to_dt(tl)
        bx, by = ev3(ctx, x, t, g), ev3(ctx, y, t, g)
        if bx not in ("T", "F") or by not in ("T", "F"):
            ctx.inconclusive("base-verdict-" + ("unknown" if "U" in (bx, by) else "raised-or-watchdog"))
            continue
        ctx.count("base_true" if bx == "T" else "base_false")
        X, Y = bx == "T", by == "T"
        for name, (v, exp) in built.items():
            want = {"inv": not X, "same": X, "T": True, "F": False, "and": X and Y, "or": X or Y, "y": Y, "same_x_and_(y|x)": X and (Y or X) and (X or not Y)}[exp]
            got = ev3(ctx, v, t, g)
            if got in ("TO", "U"):
                ctx.inconclusive("rewritten-verdict-" + ("unknown" if got == "U" else "watchdog"))
                continue
            ctx.count("rewrite_verdicts_judged")
            ctx.count("rw_" + name)
            if got != ("T" if want else "F"):
                key = None
                if ":nif" in got:
                    key = "C09:smt:not_implemented_failure-arity"
                ref = R2.evaluate_ref(f_ast, t)
                if key is None:
                    from islamon import patches
                    with patches.no_forall_drop():   # repaired twin
                        bx2, by2, got2 = ev3(ctx, x, t, g), ev3(ctx, y, t, g), ev3(ctx, v, t, g)
                    if bx2 in ("T", "F") and by2 in ("T", "F"):
                        X2, Y2 = bx2 == "T", by2 == "T"
                        want2 = {"inv": not X2, "same": X2, "T": True, "F": False, "and": X2 and Y2, "or": X2 or Y2, "y": Y2,
                                 "same_x_and_(y|x)": X2 and (Y2 or X2) and (X2 or not Y2)}[exp]
                        if got2 == ("T" if want2 else "F"):
                            key = "C09:quantifier-dropped:empty-domain"
                ctx.violation(key, f"{name}: verdict {got}, expected {'T' if want else 'F'} (x={bx}, y={by}; specification for x: {ref})",
                              {"grammar": g, "x": text, "y": text2, "rewrite": name, "tree": tl})
            else:
                ctx.held((gname, R2.skeleton(f_ast), name), sample={"x": text[:150], "rewrite": name, "base": bx, "rewritten": got} if name in ("dnf", "neg", "uniq") else None)


def rename_case(ctx, rng, g, m, gen):
    """sibling quantifiers that reuse one variable name, the second with further quantifiers nested two or three levels
    below it whose names are the ones a fresh-name generator would pick next (v_0, v_1): renaming must not capture them"""
    reach = m.reach()
    nts = sorted(reach["<start>"])
    A = rng.choice(nts)
    Bs = [b for b in nts + ["<start>"] if A in reach[b]] or ["<start>"]
    B = rng.choice(Bs)
    lit = gen.sample_str(A)[:6]
    if '"' in lit or "\\" in lit:
        lit = "a"
    q = lambda: rng.choice(["forall", "exists"])
    smt = lambda text, *vs: ("smt", text, sorted(vs))
    x = (q(), A, "v", "start", None, smt(f'(= v "{lit}")', "v") if rng.random() < 0.7 else smt("(>= (str.len v) 1)", "v"))
    if rng.random() < 0.5:
        inner_var, chain = "v_0", lambda body: (q(), B, "w", "start", None, (q(), A, "v_0", "w", None, body))
    else:
        inner_var, chain = "v_1", lambda body: (q(), B, "v_0", "start", None, (q(), A, "v_1", "v_0", None, body))
    rel = rng.choice([smt(f"(= v {inner_var})", "v", inner_var), ("not", smt(f"(= v {inner_var})", "v", inner_var)),
                      ("pred", "same_position", [("var", "v"), ("var", inner_var)]), ("pred", "before", [("var", "v"), ("var", inner_var)])])
    y = (q(), A, "v", "start", None, chain(rel))
    ctx.count("rename_cases")
    return (x, y) if rng.random() < 0.7 else (y, x)


def run(ctx):
    rng = ctx.rng
    while ctx.running():
        gname = rng.choice(CORPUS) if rng.random() < 0.85 else "random"
        g = GG.FEATURE[gname] if gname != "random" else GG.random_grammar(rng, max_nts=4)
        m = G(g)
        gen = FGen(g, rng, m, smt_bool=True)
        if rng.random() < 0.35:
            gen.naming = "underscore"       # x and y then share the names v, v_0, v_1, ... at different nesting depths
            ctx.count("formulas_with_fresh_name_bait")
        f1 = gen.formula(rng.randint(0, 3), {"start": "<start>"})
        gen._per_base = {}      # (underscore naming) y reuses x's names
        f2 = gen.formula(rng.randint(0, 2), {"start": "<start>"})
        if rng.random() < 0.15:
            f1, f2 = rename_case(ctx, rng, g, m, gen)
        st, v = ctx.guarded(judge, ctx, gname, g, m, f1, f2, rng, timeout=60)
        if st == "watchdog":
            ctx.inconclusive("watchdog")
        elif st == "exc":
            raise v


def replay(ctx, w):
    ctx.inconclusive("replay re-runs the generator; use seed/shard of the witness")
