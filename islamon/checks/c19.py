"""C19: exit-code and output contract of the isla command line (check / solve / parse / repair / mutate)."""
import json, os, io, sys, subprocess, tempfile, shutil, random
from islamon.ref.grammar import G, tstr
from islamon.ref import semantics as R2
from islamon.gen import grammars as GG, solvercases as SC
from islamon.gen.formulas import FGen

SPEC = {
    "quick": {"shards": 16, "budget_s": 60, "timeout_s": 300},
    "thorough": {"shards": 16, "budget_s": 1000, "timeout_s": 2000},
    "rule": "case = one command line (argv + files) run in-process through isla.cli.main with SystemExit captured (a 10% slice also "
            "as a real `python -m isla` subprocess and compared): check with grammar as .bnf file or -g, constraints via -c (0-2) "
            "and .isla files (0-1), input via -i or file (valid, semantically invalid, syntactically invalid, empty file, "
            "newline-only file, JSON scalars/containers, JSON trees valid and invalid); solve -n k [--tree] piped into check; "
            "parse piped into check; malformed grammar / constraint texts; missing grammar / input; repair / mutate. Judged: "
            "check exit 0 iff member and R2(conjunction) else 1; every solve output accepted by check; parse output accepted by "
            "check; malformed => 65 with a message; missing => 2; no exception escapes main / no traceback on stderr. distinct = "
            "distinct (command, scenario, grammar, constraint skeleton, outcome)",
    "minimum": {"quick": {"check_verdicts_judged": 150, "solve_outputs_checked": 60, "parse_outputs_checked": 20, "malformed_judged": 40,
                          "missing_judged": 20, "subprocess_compared": 10, "repair_mutate_runs": 20},
                "thorough": {"check_verdicts_judged": 2100, "solve_outputs_checked": 1500, "malformed_judged": 600, "subprocess_compared": 200}},
    "assumptions": ["R1/R2 for the expected verdict; ambiguous inputs and R2 abstentions are inconclusive",
                    "grammars without newline terminals (file input strips one trailing newline)",
                    "'malformed' = texts the documented BNF / ISLa grammars reject at the token-sequence level; lexer-tolerated "
                    "garbage is not asserted to be malformed", "HOME and cwd point to an empty scratch directory (.islarc)"],
}

CORPUS = ["assgn", "assgn2", "nest", "expr", "numeral", "padnum", "lines", "nestlist"]
KF_EMPTY = "C19:check:empty-input-file-IndexError"
KF_JSON = "C19:check:json-non-tree-input-traceback"
KF_JUNK = "C19:malformed-accepted:no-EOF-anchor"
KF_UNDEF = "C19:solve:undefined-nonterminal-AssertionError"
KF_DRIFT = "C19:repair-mutate:returns-api-drift"
KF_NIF = "C19:smt:not_implemented_failure-arity"


class Box:
    def __init__(self, ctx):
        self.dir = tempfile.mkdtemp(prefix="islamon-c19-")
        self.n = 0
        self.old_home, self.old_cwd = os.environ.get("HOME"), os.getcwd()
        os.environ["HOME"] = self.dir
        os.chdir(self.dir)

    def file(self, suffix, content, binary=False):
        self.n += 1
        p = os.path.join(self.dir, f"f{self.n}{suffix}")
        with open(p, "wb") as f:
            f.write(content if binary else content.encode("utf-8"))
        return p

    def close(self):
        os.chdir(self.old_cwd)
        if self.old_home is not None:
            os.environ["HOME"] = self.old_home
        shutil.rmtree(self.dir, ignore_errors=True)


def run_cli(ctx, argv, timeout=40):
    """('exit', code, stdout, stderr) | ('escaped', exc, stdout, stderr) | ('watchdog', ...)"""
    from isla import cli
    out, err = io.StringIO(), io.StringIO()

    def go():
        try:
            cli.main(*[str(a) for a in argv], stdout=out, stderr=err)
            return 0
        except SystemExit as e:
            return e.code if e.code is not None else 0
    st, v = ctx.guarded(go, timeout=timeout)
    import logging
    logging.getLogger().handlers.clear()
    if st == "watchdog":
        return "watchdog", None, out.getvalue(), err.getvalue()
    if st == "exc":
        return "escaped", v, out.getvalue(), err.getvalue()
    return "exit", v, out.getvalue(), err.getvalue()


def run_sub(argv, cwd, timeout=60):
    env = dict(os.environ)
    try:
        p = subprocess.run(["/venv/bin/python", "-m", "isla"] + [str(a) for a in argv], capture_output=True, cwd=cwd, env=env, timeout=timeout)
    except subprocess.TimeoutExpired:
        return None
    return p.returncode, p.stdout.decode("utf8", "replace"), p.stderr.decode("utf8", "replace")


def escaped_key(exc, scenario, content=None):
    s = repr(exc) + str(exc)
    from islamon import patches
    if "not_implemented_failure" in s:
        return KF_NIF
    if scenario in ("repair", "mutate") and patches.is_returns_drift(exc):
        return KF_DRIFT
    if scenario in ("repair", "mutate"):
        from islamon.worker import exc_site
        return f"C19:{scenario}:" + ":".join(exc_site(exc)) + "-escapes"
    if content is not None:
        try:
            json.loads(content)
            scenario = "json-parsable-member"   # e.g. the word "12" is read as JSON before it is parsed as a word
        except Exception:
            pass
    if scenario == "empty-file" and isinstance(exc, IndexError):
        return KF_EMPTY
    if (scenario.startswith("json-") or scenario == "json-parsable-member") and isinstance(exc, (TypeError, ValueError, KeyError, AssertionError, IndexError, AttributeError)):
        return KF_JSON
    return None


def grammar_args(box, g, rng):
    from isla.language import unparse_grammar
    text = unparse_grammar(g)
    if rng.random() < 0.6:
        return [], [box.file(".bnf", text)]
    return ["-g", text], []


def constraint_args(box, texts, rng):
    opts, files = [], []
    for t in texts:
        if rng.random() < 0.5:
            opts += [rng.choice(["-c", "--constraint"]), t]
        else:
            files.append(box.file(".isla", t))
    return opts, files


def cmdline(rng, cmd, *parts):
    """options first, then all positional files contiguously (argparse needs FILES contiguous), both shuffled"""
    opts, files = [], []
    for o, f in parts:
        opts.append(o)
        files += f
    rng.shuffle(opts)
    rng.shuffle(files)
    return [cmd] + [x for o in opts for x in o] + files


def judge_check(ctx, box, gname, g, m, rng):
    gen = FGen(g, rng, m, allow_numeric=False)
    fs = [gen.formula(rng.randint(0, 2), {"start": "<start>"}) for _ in range(rng.choice([1, 1, 2, 3]))]
    texts = [R2.pr(f) for f in fs]
    conj = fs[0] if len(fs) == 1 else ("and",) + tuple(fs)
    tl = m.random_tree(rng, budget=rng.choice([3, 8, 15]), eps_style="empty")
    s = tstr(tl)
    x = rng.random()
    alpha = sorted({c for alts in g.values() for a in alts for c in a if c not in "<>"})
    scenario, content = "member", s
    if x < 0.15 and s:
        i = rng.randrange(len(s))
        scenario, content = "near-miss", s[:i] + rng.choice(alpha) + s[i + 1:] + rng.choice(["", rng.choice(alpha)])
    elif x < 0.2:
        scenario, content = "empty-file", ""
    elif x < 0.24:
        scenario, content = "newline-only-file", "\n"
    elif x < 0.32:
        scenario, content = "json-scalar", rng.choice(["12", '"q"', "true", "null", "[]", "{}", "[1, 2]", '{"a": 1}', '["<start>"]', '["<start>", 5]'])
    elif x < 0.4:
        from islamon.bridge import to_dt
        pt = to_dt(tl).to_parse_tree()
        if rng.random() < 0.5:
            scenario, content = "json-tree-valid", json.dumps(pt)
        else:
            scenario, content = "json-tree-invalid", json.dumps(["<start>", [["<nope>", [["zz", []]]]]])
    via_file = scenario in ("empty-file", "newline-only-file") or rng.random() < 0.6
    if via_file:
        # the CLI drops one trailing newline of an input file (the one an editor or `isla solve > file` adds); a word that
        # itself ends in a newline is therefore always written the way those tools write it, with the extra one
        written = content + ("\n" if scenario == "member" and (rng.random() < 0.5 or content.endswith("\n")) else "")
        inp = ([], [box.file(".txt", written)])
        if scenario == "near-miss" and written.endswith("\n"):
            content = written[:-1]          # what the command reads: the file without its final newline
    else:
        if content == "" or content.startswith("-"):
            return
        inp = (["-i", content], [])
    argv = cmdline(rng, "check", constraint_args(box, texts, rng), grammar_args(box, g, rng), inp)
    ctx.ev()
    kind, code, out, err = run_cli(ctx, argv)
    wit = {"argv": [a if len(str(a)) < 300 else str(a)[:300] for a in argv], "scenario": scenario, "input": content, "constraints": texts, "grammar": gname}
    if kind == "watchdog":
        return ctx.inconclusive("watchdog")
    if kind == "escaped":
        sc2 = scenario
        try:
            json.loads(content)
            if scenario in ("member", "near-miss"):
                sc2 = "json-parsable-member"   # e.g. the word "12": read as JSON first
        except Exception:
            pass
        return ctx.violation(escaped_key(code, sc2), f"isla check: {type(code).__name__} escapes main() ({sc2}): {str(code)[:80]}", wit)
    if code == 2:
        ctx.count("argparse_or_usage_exit_in_complete_command")
        return ctx.violation(None, f"exit 2 although grammar, constraint and input were given; stderr: {err.strip()[-150:]}", wit)
    if "Traceback (most recent call last)" in err:
        return ctx.violation(None, "traceback on stderr", wit)
    if code == 65:
        # a well-formed constraint was rejected: find out which known parse-time defect did it
        from isla.language import parse_isla
        from isla.isla_predicates import STANDARD_STRUCTURAL_PREDICATES as SP, STANDARD_SEMANTIC_PREDICATES as MP
        key = None
        for t in texts:
            st_, e_ = ctx.guarded(parse_isla, t, g, SP, MP, timeout=20)
            if st_ == "exc" and "does not match actual number of symbols" in str(e_):
                key = "C19:constraint-rejected:smtformula-neg-simplified-away-variable"
        return ctx.violation(key, f"isla check exits 65 for a well-formed constraint; stderr: {err.strip()[-120:]}", wit)
    # expected verdict
    if scenario.startswith("json-") and scenario != "json-tree-valid":
        member = m.member(content)
        if code not in (0, 1):
            return ctx.violation(None, f"exit code {code} for a JSON-looking input", wit)
        if not member and code != 1:
            return ctx.violation(None, f"non-member JSON-looking input accepted (exit {code})", wit)
        ctx.count("json_inputs_judged")
        return ctx.held(("check", scenario, gname, code))
    word = s if scenario in ("member", "json-tree-valid") else content.rstrip("\n") if scenario == "newline-only-file" else content
    member = m.member(word) if len(word) <= 60 else None
    if member is None:
        return ctx.inconclusive("too-long")
    exp = 1
    if member:
        if m.count_derivations(word) != 1:
            return ctx.inconclusive("ambiguous-input")
        from isla.solver import ISLaSolver
        pt = ISLaSolver(g).parse(word, skip_check=True, silent=True)
        ref = R2.evaluate_ref(conj, pt)
        if isinstance(ref, tuple):
            return ctx.inconclusive("R2-abstains")
        exp = 0 if ref else 1
    if code != exp:
        key = None
        if member:
            from islamon.checks import c03
            from islamon.bridge import from_dt
            k3 = c03.classify(ctx, conj, g, from_dt(pt), code == 0, exp == 0, R2.pr(conj))
            key = k3.replace("C03:", "C19:evaluator-shares:") if k3 else None
        return ctx.violation(key, f"isla check exits {code}, expected {exp} ({scenario}, member={member})", wit)
    ctx.count("check_verdicts_judged")
    ctx.held(("check", scenario, gname, R2.skeleton(conj), code), sample={"argv": wit["argv"], "exit": code, "stdout": out.strip()[:80]})
    if rng.random() < 0.1:
        r = run_sub(argv, box.dir)
        if r is not None:
            ctx.count("subprocess_compared")
            if r[0] != code or "Traceback (most recent call last)" in r[2]:
                ctx.violation(None, f"real subprocess exits {r[0]} (in-process {code}); stderr tail: {r[2][-120:]}", wit)


def judge_solve_pipeline(ctx, box, rng):
    fam, gname, f = rng.choice([x for x in SC.families(rng) if x[1] in CORPUS])
    g = GG.FEATURE[gname]
    text = R2.pr(f)
    tree_mode = rng.random() < 0.3
    gargs = grammar_args(box, g, rng)
    cargs = constraint_args(box, [text], rng)
    extra = ["-n", str(1 if gname in ("lines", "nestlist") else rng.choice([1, 2, 3])), "-t", "10"] + (["--tree"] if tree_mode else []) + \
            (["-f", str(rng.choice([1, 5]))] if rng.random() < 0.3 else []) + (["-s", str(rng.choice([1, 3]))] if rng.random() < 0.3 else [])
    argv = cmdline(rng, "solve", (extra, []), cargs, gargs)
    random.seed(rng.randrange(10 ** 6))
    ctx.ev()
    kind, code, out, err = run_cli(ctx, argv, timeout=50)
    wit = {"argv": argv, "family": fam, "constraint": text, "grammar": gname}
    if kind == "watchdog":
        return ctx.inconclusive("watchdog")
    if kind == "escaped":
        return ctx.violation(escaped_key(code, "solve"), f"isla solve: {type(code).__name__} escapes main(): {str(code)[:80]}", wit)
    if "Traceback (most recent call last)" in err:
        return ctx.violation(None, "traceback on stderr", wit)
    if code != 0:
        ctx.count("solve_nonzero_exit")
        return ctx.inconclusive("solve-exit-nonzero (solver exceptions are C02's subject)")
    multiline = any("\n" in a for alts in g.values() for a in alts)
    if multiline and not tree_mode:
        if "-n 1 " not in " ".join(map(str, argv)) + " ":
            return ctx.inconclusive("several multi-line outputs on one stdout cannot be separated")
        lines = [] if out == "" else [out[:-1]] if out.endswith("\n") else [out]      # `isla solve ... > file`: the file is stdout as printed
    else:
        lines = [l for l in out.split("\n") if l != ""]
    for l in lines:
        if multiline:
            ctx.count("multiline_solve_outputs")
        p = box.file(".json" if tree_mode else ".txt", l + "\n")
        k2, c2, o2, e2 = run_cli(ctx, cmdline(rng, "check", ([], [p]), cargs, gargs))
        if k2 == "watchdog":
            ctx.inconclusive("watchdog")
            continue
        if k2 == "escaped":
            ctx.violation(escaped_key(c2, "solve", l), f"isla check on a solve output: {type(c2).__name__} escapes main()", {**wit, "output": l})
            continue
        if c2 != 0:
            # is it the solver (C01) or check that is off? R2 on the printed word decides
            key = None
            try:
                from isla.solver import ISLaSolver
                pt = ISLaSolver(g).parse(l, skip_check=True, silent=True) if not tree_mode else None
                if pt is not None and R2.evaluate_ref(f, pt) is False:
                    from islamon.checks import c01
                    k1, _ = c01.classify_unsound(ctx, f, g, pt, text, fam)
                    key = k1.replace("C01:", "C19:solve-output-shares:") if k1 else None
            except Exception:
                pass
            ctx.violation(key, f"input printed by `isla solve` is rejected by `isla check` (exit {c2}: {o2.strip()[:60]})", {**wit, "output": l})
            continue
        ctx.count("solve_outputs_checked")
        ctx.held(("solve|check", fam, gname, tree_mode), sample={"argv": argv, "output": l[:80], "check_exit": c2})


def judge_parse_pipeline(ctx, box, gname, g, m, rng):
    gen = FGen(g, rng, m, allow_numeric=False)
    f = gen.formula(rng.randint(0, 1), {"start": "<start>"})
    text = R2.pr(f)
    tl = m.random_tree(rng, budget=rng.choice([3, 8]), eps_style="empty")
    s = tstr(tl)
    if not s or s.startswith("-"):
        return
    gargs, cargs = grammar_args(box, g, rng), constraint_args(box, [text], rng)
    ctx.ev()
    kind, code, out, err = run_cli(ctx, cmdline(rng, "parse", (["-i", s] + (["-p"] if rng.random() < 0.3 else []), []), cargs, gargs))
    wit = {"constraint": text, "grammar": gname, "input": s}
    if kind == "watchdog":
        return ctx.inconclusive("watchdog")
    if kind == "escaped":
        return ctx.violation(escaped_key(code, "parse", s), f"isla parse: {type(code).__name__} escapes main(): {str(code)[:80]}", wit)
    if code != 0:
        return ctx.count("parse_rejected_input")
    p = box.file(".json", out)
    k2, c2, o2, e2 = run_cli(ctx, cmdline(rng, "check", ([], [p]), cargs, gargs))
    if k2 == "escaped":
        return ctx.violation(escaped_key(c2, "parse"), f"isla check on parse output: {type(c2).__name__} escapes main()", wit)
    if k2 == "exit" and c2 != 0:
        return ctx.violation(None, f"JSON tree emitted by `isla parse` is rejected by `isla check` (exit {c2})", {**wit, "json": out[:300]})
    if k2 == "exit":
        try:
            from islamon.bridge import to_dt
            if tstr(to_dt(json.loads(out))) != s:
                return ctx.violation(None, "JSON tree emitted by `isla parse` does not spell the input", {**wit, "json": out[:300]})
        except Exception as e:
            return ctx.violation(None, f"`isla parse` output is not a JSON tree: {e!r}"[:160], {**wit, "json": out[:300]})
        ctx.count("parse_outputs_checked")
        ctx.held(("parse|check", gname, R2.skeleton(f)))


BAD_GRAMMARS = [("missing-assign", '<start> <a>\n<a> ::= "x"'), ("unterminated-string", '<start> ::= <a>\n<a> ::= "x'), ("no-rhs", '<start> ::= \n'),
                ("garbage", 'this is not a grammar'), ("dangling-bar-eof", '<start> ::= <a>\n<a> ::= "x" |'), ("double-assign", '<start> ::= ::= <a>')]
JUNK_GRAMMARS = [("valid-prefix-then-junk", '<start> ::= <a> |\n<a> ::= "x"'), ("valid-prefix-then-junk", '<start> ::= <a>\n<a> ::= "x"\n)))')]
BAD_CONSTRAINTS = [("unknown-predicate", 'frobnicate(start, start)'), ("wrong-arity", 'before(start)'), ("unbound-variable", 'forall <a> x in start: (= y "x")'),
                   ("unknown-type", 'forall <zzz> x in start: (= x "x")'), ("unbalanced", 'forall <a> x in start: ((= x "x")'), ("garbage", 'forall forall'),
                   ("missing-colon", 'forall <a> x in start (= x "x")')]
JUNK_CONSTRAINTS = [("valid-prefix-then-junk", '(= start "x") )))'), ("valid-prefix-then-junk", '(= start "x") forall')]


def judge_malformed(ctx, box, rng):
    good_g = '<start> ::= <a>\n<a> ::= "x" | "y" <a>'
    cmd = rng.choice(["check", "solve", "parse"])
    which = rng.choice(["grammar", "constraint"])
    pool = (BAD_GRAMMARS + JUNK_GRAMMARS) if which == "grammar" else (BAD_CONSTRAINTS + JUNK_CONSTRAINTS)
    name, bad = rng.choice(pool)
    gtext = bad if which == "grammar" else good_g
    ctext = bad if which == "constraint" else '(= start "x")'
    gargs = ([], [box.file(".bnf", gtext)]) if rng.random() < 0.5 else (["-g", gtext], [])
    cargs = ([], [box.file(".isla", ctext)]) if rng.random() < 0.5 else (["-c", ctext], [])
    argv = cmdline(rng, cmd, ((["-i", "x"] if cmd != "solve" else ["-n", "1", "-t", "5"]), []), cargs, gargs)
    ctx.ev()
    kind, code, out, err = run_cli(ctx, argv)
    wit = {"argv": argv, "malformed": which, "kind": name}
    if kind == "watchdog":
        return ctx.inconclusive("watchdog")
    if kind == "escaped":
        key = KF_UNDEF if "Grammar has no rules for" in str(code) else None
        return ctx.violation(key, f"isla {cmd}: {type(code).__name__} escapes main() on a malformed {which}: {str(code)[:80]}", wit)
    if code != 65 or not err.strip():
        key = KF_JUNK if name == "valid-prefix-then-junk" else None
        return ctx.violation(key, f"malformed {which} ({name}): exit {code}, stderr {'empty' if not err.strip() else 'present'}; expected 65 with a message", wit)
    ctx.count("malformed_judged")
    ctx.held(("malformed", cmd, which, name), sample={"argv": argv, "exit": code, "stderr": err.strip()[:100]})


def judge_missing(ctx, box, rng):
    good_g = '<start> ::= <a>\n<a> ::= "x" | "y" <a>'
    scen = rng.choice(["no-grammar-check", "no-grammar-solve", "no-input-check", "no-input-parse", "no-grammar-parse"])
    c = ["-c", '(= start "x")']
    argv = {"no-grammar-check": ["check", "-i", "x"] + c, "no-grammar-solve": ["solve", "-n", "1"] + c, "no-input-check": ["check"] + c + ["-g", good_g],
            "no-input-parse": ["parse"] + c + ["-g", good_g], "no-grammar-parse": ["parse", "-i", "x"] + c}[scen]
    ctx.ev()
    kind, code, out, err = run_cli(ctx, argv)
    wit = {"argv": argv, "scenario": scen}
    if kind == "escaped":
        return ctx.violation(None, f"{type(code).__name__} escapes main() ({scen})", wit)
    if kind == "exit" and code != 2:
        return ctx.violation(None, f"{scen}: exit {code}, expected 2", wit)
    if kind == "exit":
        ctx.count("missing_judged")
        ctx.held(("missing", scen))


def judge_repair_mutate(ctx, box, rng):
    fam, gname, f = rng.choice([x for x in SC.families(rng) if x[1] in ("assgn", "numeral", "padnum")])
    g = GG.FEATURE[gname]
    m = G(g)
    s = tstr(m.random_tree(rng, budget=rng.choice([3, 8]), eps_style="empty"))
    if not s or s.startswith("-"):
        return
    cmd = rng.choice(["repair", "mutate"])
    argv = cmdline(rng, cmd, (["-i", s, "-c", R2.pr(f)] + (["-t", "1"] if cmd == "mutate" else []), []), grammar_args(box, g, rng))
    random.seed(rng.randrange(10 ** 6))
    ctx.ev()
    kind, code, out, err = run_cli(ctx, argv, timeout=40)
    wit = {"argv": argv}
    if kind == "watchdog":
        return ctx.inconclusive("watchdog")
    ctx.count("repair_mutate_runs")
    if kind == "escaped":
        return ctx.violation(escaped_key(code, cmd, s), f"isla {cmd}: {type(code).__name__} escapes main(): {str(code)[:80]}", wit)
    if code not in (0, 1) or "Traceback (most recent call last)" in err:
        return ctx.violation(None, f"isla {cmd}: exit {code}", wit)
    ctx.held((cmd, fam, code))


def run(ctx):
    rng = ctx.rng
    box = Box(ctx)
    try:
        while ctx.running():
            gname = rng.choice(CORPUS)
            g = GG.FEATURE[gname]
            m = G(g)
            x = rng.random()
            if x < 0.45:
                judge_check(ctx, box, gname, g, m, rng)
            elif x < 0.6:
                judge_solve_pipeline(ctx, box, rng)
            elif x < 0.7:
                judge_parse_pipeline(ctx, box, gname, g, m, rng)
            elif x < 0.85:
                judge_malformed(ctx, box, rng)
            elif x < 0.93:
                judge_missing(ctx, box, rng)
            else:
                judge_repair_mutate(ctx, box, rng)
    finally:
        box.close()


def replay(ctx, w):
    box = Box(ctx)
    try:
        kind, code, out, err = run_cli(ctx, w["argv"])
        print("replayed:", kind, code, out[:200], err[:300])
        ctx.inconclusive("replay prints the observed exit code; file arguments of the original scratch directory are gone")
    finally:
        box.close()
