"""C18: check / parse / repair / mutate agree with the constraint (R1 + R2) and with each other."""
import json, random
from islamon.ref.grammar import G, nodes, kids, lab, tstr, to_list, to_plain
from islamon.ref import semantics as R2
from islamon.gen import grammars as GG, solvercases as SC
from islamon.gen.formulas import FGen
from islamon import patches

SPEC = {
    "quick": {"shards": 16, "budget_s": 60, "timeout_s": 300},
    "thorough": {"shards": 16, "budget_s": 1000, "timeout_s": 1800},
    "rule": "case = (grammar, constraint from the documented families or the general generator, input): inputs = trees from random "
            "derivations (valid or violating the constraint, decided by R2), their strings, single-edit near misses "
            "(syntactically invalid) and the empty string. Judged: check(str) == (member and R2(parse tree)); parse(str) raises "
            "SyntaxError iff not a member, SemanticError iff member and violating, else returns a valid tree with that yield; on "
            "unambiguous inputs check(tree) == check(str(tree)); repair(valid) returns the input unchanged, repair(invalid) "
            "returns Nothing or a closed valid tree satisfying the constraint; mutate returns a closed valid tree satisfying "
            "the constraint. repair/mutate on this venv crash through returns-0.29 API drift (known finding); their results are "
            "judged in a second pass behind a compatibility shim. distinct = distinct (grammar, formula skeleton, input "
            "class, operation)",
    "minimum": {"quick": {"check_str_judged": 500, "parse_judged": 500, "check_tree_vs_str": 150, "syntactically_invalid": 200, "semantically_invalid": 150,
                          "repairs_judged_behind_shim": 60, "mutations_judged_behind_shim": 10},
                "thorough": {"check_str_judged": 15000, "parse_judged": 15000, "repairs_judged_behind_shim": 1500, "mutations_judged_behind_shim": 250}},
    "assumptions": ["R1 membership/uniqueness of derivation, R2 satisfaction; R2 abstentions and ambiguous strings are inconclusive",
                    "for check(tree), repair and mutate the statement constrains what is returned: exceptions there are recorded, "
                    "except the returns-API drift which is a listed finding", "UnknownResultError from check(tree) is allowed by its docstring"],
}

KF_DRIFT = "C18:repair-mutate:returns-api-drift"
CORPUS = ["assgn", "assgn2", "nest", "expr", "numeral", "padnum", "nestlist", "leftrec", "eps", "nullchain", "lines",
          "nullable-forward-pair", "nullable-forward-layout", "optrec"]


def known_eval_key(ctx, f, g, tl, got, ref, text):
    from islamon.checks import c03
    k3 = c03.classify(ctx, f, g, tl, got, ref, text)
    return k3.replace("C03:", "C18:evaluator-shares:") if k3 else None


def known_solver_key(ctx, f, g, tree, text, fam):
    """result of repair/mutate violates the constraint: evaluator-level deviation, or the solver unsoundness listed under C01"""
    from islamon.checks import c01
    k, _ = c01.classify_unsound(ctx, f, g, tree, text, fam)
    if k is None:
        return None
    return k.replace("C01:evaluator-shares:", "C18:evaluator-shares:").replace("C01:solver-unsound:", "C18:solver-shares:")


def judge_string(ctx, gname, g, m, f, text, solver, s, tl, cls):
    """s: input string; tl: its (unique) derivation as nested list or None when not a member"""
    from isla.solver import SemanticError
    from islamon.bridge import to_dt
    ctx.ev()
    member = m.member(s) if len(s) <= 60 else None
    if member is None:
        return ctx.inconclusive("string-too-long-for-chart")
    sat = None
    if member:
        if m.count_derivations(s) != 1:
            return ctx.inconclusive("ambiguous-input")
        st, pt = ctx.guarded(solver.parse, s, "<start>", True, True, timeout=20)
        if st != "ok":
            return ctx.violation(None, f"parse(skip_check) fails on a member: {pt!r}"[:160], {"grammar": g, "constraint": text, "input": s})
        if m.valid_tree(pt, "<start>", allow_open=False) or tstr(pt) != s:
            return ctx.violation(None, "parse returns an unfaithful tree", {"grammar": g, "constraint": text, "input": s, "tree": to_list(pt)})
        ref = R2.evaluate_ref(f, pt)
        if isinstance(ref, tuple):
            return ctx.inconclusive("R2-abstains:" + ref[1])
        sat = ref
        tl = to_list(pt)
    expected = bool(member and sat)
    wit = {"grammar": g, "constraint": text, "ast": f, "input": s, "class": cls}
    # check(str)
    st, c = ctx.guarded(solver.check, s, timeout=25)
    if st == "watchdog":
        ctx.inconclusive("watchdog")
    elif st == "exc" and type(c).__name__ == "UnknownResultError" and R2.has_numeric_quantifier(f):
        # three-valued evaluation may stay UNKNOWN under a numeric quantifier (C03 judges UNKNOWN only without one)
        ctx.inconclusive("unknown-under-numeric-quantifier")
    elif st == "exc":
        key = "C18:smt:not_implemented_failure-arity" if "not_implemented_failure" in str(c) else None
        ctx.violation(key, f"check(str) raises {type(c).__name__}: {str(c)[:80]}", wit)
    elif c != expected:
        key = known_eval_key(ctx, f, g, tl, c, expected, text) if member else None
        ctx.violation(key, f"check({s!r}) = {c}, expected {expected} (member={member}, satisfies={sat})", wit)
    else:
        ctx.count("check_str_judged")
        ctx.held((gname, R2.skeleton(f), cls, "check_str", expected), sample={"constraint": text[:120], "input": s[:60], "class": cls, "check": c})
    # parse(str)
    st, p = ctx.guarded(solver.parse, s, "<start>", False, True, timeout=25)
    if st == "watchdog":
        ctx.inconclusive("watchdog")
    else:
        want = "tree" if expected else "SyntaxError" if not member else "SemanticError"
        got = "tree" if st == "ok" else type(p).__name__
        if got == "UnknownResultError" and R2.has_numeric_quantifier(f):
            ctx.inconclusive("unknown-under-numeric-quantifier")
        elif got != want:
            key = None
            if "not_implemented_failure" in str(p):
                key = "C18:smt:not_implemented_failure-arity"
            elif member and {got, want} == {"tree", "SemanticError"}:
                key = known_eval_key(ctx, f, g, tl, got == "tree", want == "tree", text)
            ctx.violation(key, f"parse({s!r}): {got}, expected {want}", wit)
        else:
            if st == "ok" and (m.valid_tree(p, "<start>", allow_open=False) or tstr(p) != s):
                ctx.violation(None, "parse returns an unfaithful tree", wit)
            else:
                ctx.count("parse_judged")
                ctx.held((gname, R2.skeleton(f), cls, "parse", want))
    if not member:
        ctx.count("syntactically_invalid")
    elif not sat:
        ctx.count("semantically_invalid")
    return sat


def judge_tree_ops(ctx, gname, g, m, f, text, solver, tl, sat, rng, fam=None):
    from isla.solver import UnknownResultError
    from returns.pipeline import is_successful
    from islamon.bridge import to_dt
    t = to_dt(tl)
    s = tstr(t)
    wit = {"grammar": g, "constraint": text, "ast": f, "input": s, "tree": tl}
    # check(tree) vs check(str)
    st, c1 = ctx.guarded(solver.check, t, timeout=25)
    st2, c2 = ctx.guarded(solver.check, s, timeout=25)
    if st == "ok" and st2 == "ok":
        if c1 != c2:
            key = known_eval_key(ctx, f, g, tl, c1, c2, text)
            ctx.violation(key, f"check(tree) = {c1} but check(str(tree)) = {c2} on an unambiguous input", wit)
        else:
            ctx.count("check_tree_vs_str")
            ctx.held((gname, R2.skeleton(f), "check_tree", c1))
    elif st == "exc" and isinstance(c1, UnknownResultError):
        ctx.inconclusive("check-tree-unknown-result")
    else:
        ctx.count("check_tree_raised_or_watchdog")
    # repair: primary (expected to hit the drift) and behind the shim
    for behind in (False, True):
        def rep():
            return solver.repair(t, fix_timeout_seconds=1)
        if behind:
            with patches.returns_drift():
                st, r = ctx.guarded(rep, timeout=40)
        else:
            st, r = ctx.guarded(rep, timeout=40)
        ctx.ev()
        if st == "watchdog":
            ctx.inconclusive("repair-watchdog")
            continue
        if st == "exc":
            if not behind and patches.is_returns_drift(r):
                ctx.violation(KF_DRIFT, f"repair raises {type(r).__name__}: {str(r)[:80]}", wit)
            else:
                from islamon.worker import exc_site
                ctx.count(("behind:" if behind else "") + "repair_raised:" + ":".join(exc_site(r)))
            continue
        why = None
        if sat:
            if not is_successful(r) or to_plain(r.unwrap()) != to_plain(t):
                why = "repair changed an input that already satisfies the constraint"
        elif is_successful(r):
            rt = r.unwrap()
            if any(kids(n) is None for _, n in nodes(rt)):
                why = "repair returned an open tree"
            else:
                why = m.valid_tree(rt, "<start>", allow_open=False)
                if not why:
                    ref = R2.evaluate_ref(f, rt)
                    if ref is False:
                        why = f"repair returned {tstr(rt)!r}, which violates the constraint"
        if why:
            key = None
            if not sat and is_successful(r):
                key = known_solver_key(ctx, f, g, r.unwrap(), text, fam)
            elif sat:
                stc, cc = ctx.guarded(solver.check, t, timeout=25)
                if stc == "ok" and cc is False:     # ISLa itself considers the input invalid: evaluator-level deviation
                    key = known_eval_key(ctx, f, g, tl, False, True, text)
            ctx.violation(key, why + (" [behind returns-drift shim]" if behind else ""), wit)
        else:
            ctx.count("repairs_judged_behind_shim" if behind else "repairs_judged")
            ctx.held((gname, R2.skeleton(f), "repair", bool(sat), behind))
    # mutate (behind the shim; loops until success, so bounded by the watchdog)
    if rng.random() < 0.25 and sat:
        def mut():
            return solver.mutate(t, min_mutations=1, max_mutations=rng.choice([1, 3]), fix_timeout_seconds=1)
        random.seed(rng.randrange(10 ** 6))
        with patches.returns_drift():
            st, mt = ctx.guarded(mut, timeout=30)
        ctx.ev()
        if st == "watchdog":
            return ctx.inconclusive("mutate-watchdog")
        if st == "exc":
            from islamon.worker import exc_site
            return ctx.count("behind:mutate_raised:" + ":".join(exc_site(mt)))
        why = "mutate returned an open tree" if any(kids(n) is None for _, n in nodes(mt)) else m.valid_tree(mt, "<start>", allow_open=False)
        if not why:
            ref = R2.evaluate_ref(f, mt)
            if ref is False:
                why = f"mutate returned {tstr(mt)!r}, which violates the constraint"
        if why:
            key = known_solver_key(ctx, f, g, mt, text, fam)
            return ctx.violation(key, why + " [behind returns-drift shim]", {**wit, "mutant": tstr(mt)})
        ctx.count("mutations_judged_behind_shim")
        ctx.held((gname, R2.skeleton(f), "mutate"), sample={"constraint": text[:120], "input": s[:60], "mutant": tstr(mt)[:60]})


def run(ctx):
    rng = ctx.rng
    while ctx.running():
        if rng.random() < 0.5:
            fam, gname, f = rng.choice([x for x in SC.families(rng) if x[1] in CORPUS])
        else:
            gname = rng.choice(CORPUS)
            fam, f = "random", FGen(GG.FEATURE[gname], rng, allow_numeric=rng.random() < 0.3).formula(rng.randint(1, 2), {"start": "<start>"})
        g = GG.FEATURE[gname]
        m = G(g)
        text = R2.pr(f)
        st, solver = ctx.guarded(SC.make_solver, g, text, {}, None, timeout=30)
        if st != "ok":
            ctx.inconclusive("constructor-rejected")
            continue
        alpha = sorted({c for alts in g.values() for a in alts for c in a if c not in "<>"}) or ["a"]
        for _ in range(5):
            if not ctx.running():
                break
            tl = m.random_tree(rng, budget=rng.choice([3, 8, 15]), eps_style="empty")
            s = tstr(tl)
            sat = judge_string(ctx, gname, g, m, f, text, solver, s, tl, "member")
            if sat is not None and len(s) <= 60 and m.count_derivations(s) == 1:
                judge_tree_ops(ctx, gname, g, m, f, text, solver, tl, sat, rng, fam)
            if s:
                i = rng.randrange(len(s))
                # near misses: one character dropped / inserted, the empty string, and a member with trailing or leading
                # layout the grammar may not allow (what a file read or a shell pipe appends)
                pad = rng.choice(["\n", "\n\n", " ", "\r\n", "\t"])
                for miss in (s[:i] + s[i + 1:], s[:i] + rng.choice(alpha) + s[i:], "", s + pad, rng.choice(["\n", " "]) + s):
                    judge_string(ctx, gname, g, m, f, text, solver, miss, None, "near-miss")


def replay(ctx, w):
    ctx.inconclusive("replay re-runs the generator; use seed/shard of the witness")
