"""C08: simplified syntax evaluates exactly like its documented core translation."""
import json
from islamon.ref.grammar import G, nodes, lab, kids
from islamon.ref import semantics as R2
from islamon.gen import grammars as GG, sugar as SU
from islamon.gen.formulas import FGen

SPEC = {
    "quick": {"shards": 16, "budget_s": 50, "timeout_s": 260},
    "thorough": {"shards": 16, "budget_s": 900, "timeout_s": 1600},
    "rule": "case = (one reference AST, its core text, one sugared text, 5 trees): sugar applied by construction from {omitted "
            "'in start', omitted variable names, free nonterminals (top-level universal chain), XPath child .<T>[i] (1-2 "
            "segments) and descendant ..<T>, infix/prefix SMT, implies/iff/xor}; the core side is the documented translation "
            "(one match expression per expansion alternative containing the child, conjunction under universals, "
            "descendant axis as an inner universal). Judged: evaluate(parse(sugar)) == evaluate(parse(core)) on every tree; "
            "R2 on the core AST is recorded. distinct = distinct (grammar, sugar kinds used, formula skeleton)",
    "minimum": {"quick": {"pairs_judged": 600, "tree_comparisons": 3000, "kind_xpath": 100, "kind_connective": 100, "kind_free": 80,
                          "kind_omit_names": 80, "kind_infix": 150, "kind_free_named_clash": 20, "kind_arith_chain": 40},
                "thorough": {"pairs_judged": 15000, "kind_xpath": 3000, "kind_free": 2000}},
    "assumptions": ["desugaring direction is by construction (AST -> sugar), following islaspec.rst 'Simplified Syntax'",
                    "XPath in existential scope is judged only when the child occurs in exactly one expansion alternative",
                    "match expressions whose text is ambiguous in the reference grammar are not generated"],
}

KF_PUSHIN = "C08:free-nonterminal-push-in:empty-domain"
KF_XP_EXISTS = "C08:xpath:descendant-segment-under-exists-rejected"
KF_XP_SAMETYPE = "C08:xpath:free-head-and-segment-of-same-type-name-clash"
KF_NIF = "C08:smt:not_implemented_failure-arity-on-one-side"
KF_START_NAME = "C08:nameless-start-nonterminal:clashes-with-constant"
CORPUS = ["assgn", "assgn2", "nest", "expr", "eps", "nestlist", "numeral", "padnum", "nullchain", "leftrec"]


def ev3(ctx, formula, tree, g):
    from isla.evaluator import evaluate
    from isla.isla_predicates import STANDARD_STRUCTURAL_PREDICATES as SP, STANDARD_SEMANTIC_PREDICATES as MP
    st, r = ctx.guarded(evaluate, formula, tree, g, structural_predicates=SP, semantic_predicates=MP, timeout=20)
    if st == "watchdog":
        return "TO"
    if st == "exc":
        return "EXC " + type(r).__name__ + (":nif" if "not_implemented_failure" in str(r) else "")
    return "T" if r.is_true() else "F" if r.is_false() else "U"


def make_case(gen, rng):
    f, kind = SU.gen_ext(gen, rng)
    fresh = SU.Fresh(gen)
    try:
        core = SU.desugar(f, gen.cg, fresh)
    except SU.Unsupported:
        return None
    if any(gen.mexpr_ambiguous(A, symbols) for A, symbols in fresh.mexprs):
        return None
    if any('"' in "".join(sy) or "\\" in "".join(sy) or "[" in "".join(sy) or "{" in "".join(sy) or "\n" in "".join(sy) for _, sy in fresh.mexprs):
        return None
    opts = SU.choose_opts(f, rng, kind)
    return f, kind, core, opts, fresh.exists_multi


def judge(ctx, gname, g, m, gen, rng):
    from isla.language import parse_isla
    from isla.isla_predicates import STANDARD_STRUCTURAL_PREDICATES as SP, STANDARD_SEMANTIC_PREDICATES as MP
    from islamon.bridge import to_dt
    c = make_case(gen, rng)
    if c is None:
        return ctx.inconclusive("generator-rejected")
    f, kind, core, opts, exists_multi = c
    sugar_text = SU.ps(f, rng, opts)
    core_text = R2.pr(core)
    ctx.ev()
    if sugar_text == core_text:
        return ctx.inconclusive("no-sugar-applied")
    if exists_multi:
        return ctx.inconclusive("xpath-in-existential-scope-with-several-alternatives")
    wit = {"grammar": g, "sugar": sugar_text, "core": core_text, "kind": kind, "opts": {k: sorted(v) if isinstance(v, set) else v for k, v in opts.items()}}
    st, fc = ctx.guarded(parse_isla, core_text, g, SP, MP, timeout=20)
    if st != "ok":
        ctx.count("core_text_rejected:" + (type(fc).__name__ if st == "exc" else "watchdog"))
        return ctx.inconclusive("core-text-rejected-by-parser")
    st, fs = ctx.guarded(parse_isla, sugar_text, g, SP, MP, timeout=20)
    if st == "watchdog":
        return ctx.inconclusive("watchdog")
    if st == "exc":
        key = None
        if kind == "xpath" and f[1] == "exists" and any(s_[0] == ".." for s_ in f[5]) \
                and isinstance(fs, SyntaxError) and "Unbound variables" in str(fs):
            key = KF_XP_EXISTS
        elif kind == "xpath" and f[3] in opts["free"] and any(s_[1] == f[2] for s_ in f[5]) and (
                isinstance(fs, StopIteration) or (isinstance(fs, SyntaxError) and "Unbound variables" in str(fs))):
            key = KF_XP_SAMETYPE
        elif isinstance(fs, AssertionError) and any((q[0][1] if q[0][0] != "xq" else q[0][2]) == "<start>" and
                                                     (q[0][2] if q[0][0] != "xq" else q[0][3]) in (opts["omit_names"] | opts["free"])
                                                     for q in SU.quantifiers(f)):
            key = KF_START_NAME
        return ctx.violation(key, f"sugared constraint rejected ({type(fs).__name__}: {str(fs)[:80]}) although its core form parses", wit)
    kinds = [kind] + [k for k in ("free", "omit_names") if opts[k]] + (["infix"] if opts["infix"] else []) + (["drop_in_start"] if opts["drop_in_start"] else [])
    ok = True
    for _ in range(5):
        tl = m.random_tree(rng, budget=rng.choice([3, 8, 15, 30]), eps_style="empty")
        t = to_dt(tl)
        a, b = ev3(ctx, fs, t, g), ev3(ctx, fc, t, g)
        if "TO" in (a, b):
            ctx.inconclusive("watchdog")
            continue
        if "U" in (a, b) and R2.has_numeric_quantifier(core):
            ctx.inconclusive("unknown-with-numeric-quantifier")
            continue
        ctx.count("tree_comparisons")
        if a != b:
            key = None
            if ":nif" in a or ":nif" in b:
                key = KF_NIF
            elif opts["free"]:
                labels = {lab(n) for _, n in nodes(tl)}
                closed_over = [q[0][1] if q[0][0] != "xq" else q[0][2] for q in SU.quantifiers(f) if (q[0][2] if q[0][0] != "xq" else q[0][3]) in opts["free"]]
                if any(nt not in labels for nt in closed_over):
                    key = KF_PUSHIN
            ref = R2.evaluate_ref(core, t)
            ctx.violation(key, f"sugar {a} vs core {b} (specification on core: {ref}); sugar kinds {kinds}", {**wit, "tree": tl})
            ok = False
            break
        ref = R2.evaluate_ref(core, t)
        if not isinstance(ref, tuple) and b in ("T", "F") and (b == "T") != ref:
            ctx.count("both_differ_from_R2_(C03_domain)")
    if ok:
        ctx.count("pairs_judged")
        for k in kinds:
            ctx.count("kind_" + k)
        ctx.held((gname, tuple(kinds), R2.skeleton(core)), sample={"sugar": sugar_text, "core": core_text, "kinds": kinds})


def run(ctx):
    rng = ctx.rng
    while ctx.running():
        gname = rng.choice(CORPUS) if rng.random() < 0.85 else "random"
        g = GG.FEATURE[gname] if gname != "random" else GG.random_grammar(rng, max_nts=4)
        m = G(g)
        gen = FGen(g, rng, m)
        for _ in range(4):
            st, v = ctx.guarded(judge, ctx, gname, g, m, gen, rng, timeout=150)
            if st == "watchdog":
                ctx.inconclusive("watchdog")
            elif st == "exc":
                raise v


def replay(ctx, w):
    from isla.language import parse_isla
    from isla.isla_predicates import STANDARD_STRUCTURAL_PREDICATES as SP, STANDARD_SEMANTIC_PREDICATES as MP
    from islamon.bridge import to_dt
    g = w["grammar"]
    a = ev3(ctx, parse_isla(w["sugar"], g, SP, MP), to_dt(w["tree"]), g)
    b = ev3(ctx, parse_isla(w["core"], g, SP, MP), to_dt(w["tree"]), g)
    if a != b:
        ctx.violation(None, f"sugar {a} vs core {b}", w)
    else:
        ctx.held(("replay",))
