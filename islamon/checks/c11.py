"""C11: unparse_grammar -> parse_bnf preserves the language (identity without '<' in terminals)."""
import json
from islamon.ref.grammar import G, is_nt, split_alt

SPEC = {
    "quick": {"shards": 16, "budget_s": 40, "timeout_s": 200},
    "thorough": {"shards": 16, "budget_s": 600, "timeout_s": 1200},
    "rule": "case = random grammar whose terminals come from a hostile pool (every byte 0x00-0xff, quotes, backslash "
            "sequences, literal \\xNN text, '<' '>' in terminals, non-Latin-1, whitespace-only, '|', '::=', '#', empty "
            "alternatives, pre-defined <langle>/<langle_0>); judged: no exception, identity when no terminal contains "
            "'<', else bounded language equality per nonterminal (R1 enumeration + mutants, both directions); "
            "distinct = distinct grammars (by content)",
    "minimum": {"quick": {"judged": 1500, "with_langle": 200, "identity_checked": 800, "words_compared": 2000},
                "thorough": {"judged": 30000, "with_langle": 4000, "identity_checked": 15000}},
    "assumptions": ["R1 bounded language enumeration and span-chart membership (islamon/ref/grammar.py)",
                    "nonterminal names are drawn from [A-Za-z0-9_-]; the property quantifies over terminal strings"],
}

POOL_FIXED = ['"', "\\", "\\b", "\\t", "\\n", "\\r", '\\"', "\\\\", "\\x", "\\x41", "\\x0b", "\\u0041", "<", ">", "<<", "a<b", "<a b>",
              "< ", ">>", "<>x"[0:1] + " >", " ", "\t", "\n", "\r\n", "  ", "|", "::=", "#", "# c\n", ";", "é", "ß", "€", " ",
              "\U0001F600", "\x00", "\x7f", "\x80", "\xff", "\x0b", "\x0c", "a", "b", "ab", "0", "'", "`", "$$", "$$B", "\\\\x41",
              "\\\\n", '"\\', '\\"\\', "<\\", "\\<", "a\\", "\\ "]


def rand_terminal(rng):
    r = rng.random()
    if r < 0.45:
        return rng.choice(POOL_FIXED)
    if r < 0.65:
        return chr(rng.randrange(256))
    if r < 0.8:
        return "".join(rng.choice(POOL_FIXED) for _ in range(2))
    return rng.choice("abc01")


def gen_grammar(rng):
    for _ in range(100):
        n = rng.randint(1, 4)
        names = rng.sample(["<A>", "<B>", "<c-d>", "<e_1>", "<langle>", "<langle_0>", "<x.y>", "<Z9>"], n)
        g = {"<start>": [names[0]]}
        ok = True
        for a in names:
            alts = []
            for _k in range(rng.randint(1, 3)):
                syms = []
                for _s in range(rng.choice([0, 1, 1, 2, 3])):
                    syms.append(rng.choice(names) if rng.random() < 0.3 else rand_terminal(rng))
                alt = "".join(syms)
                # the joined alternative must split back into the intended nonterminals only
                want = [s for s in syms if is_nt(s) and s in names]
                got = [s for s in split_alt(alt) if is_nt(s)]
                if want != got:
                    ok = False
                    break
                if alt not in alts:
                    alts.append(alt)
            if not ok:
                break
            g[a] = alts
        if not ok:
            continue
        m = G(g)
        if m.well_formed():
            return g
    return {"<start>": ["<A>"], "<A>": ["a<", "<A>\\"]}


def judge(ctx, g):
    from isla.language import unparse_grammar, parse_bnf
    ctx.ev()
    wit = {"grammar": g}
    st, text = ctx.guarded(unparse_grammar, g)
    if st != "ok":
        return ctx.inconclusive("watchdog") if st == "watchdog" else ctx.violation(
            None, f"unparse_grammar raises {type(text).__name__}: {str(text)[:80]}", wit)
    st, g2 = ctx.guarded(parse_bnf, text)
    if st != "ok":
        if st == "watchdog":
            return ctx.inconclusive("watchdog")
        key = None
        if isinstance(g2, AssertionError) and any("$$BESC$$" in a for alts in g.values() for a in alts):
            key = "C11:terminal-contains-escape-placeholder"
        return ctx.violation(key, f"parse_bnf raises {type(g2).__name__} on printed grammar: {str(g2)[:80]}",
                             {**wit, "text": text})
    wit["text"], wit["reparsed"] = text, g2
    terms = [x for alts in g.values() for a in alts for x in split_alt(a) if not is_nt(x)]
    has_l = any("<" in t for t in terms)
    if not has_l:
        ctx.count("identity_checked")
        if g2 != g:
            return ctx.violation(None, "re-parsed grammar differs although no terminal contains '<'", wit)
        return ctx.held(json.dumps(g, sort_keys=True), sample={"grammar": g, "bnf": text, "identical": True})
    ctx.count("with_langle")
    m1 = G(g)
    try:
        m2 = G(g2)
        wf = m2.well_formed() or True
    except Exception as e:
        return ctx.violation(None, f"re-parsed grammar unusable: {e!r}", wit)
    rng = ctx.rng
    for nt in g:
        if nt not in g2:
            return ctx.violation(None, f"nonterminal {nt} lost", wit)
        w1, _ = m1.language(nt, maxlen=5, cap=1500)
        w2, _ = m2.language(nt, maxlen=5, cap=1500)
        alpha = sorted({c for w in (w1 | w2) for c in w}) or ["a"]
        probe = set(list(w1)[:150]) | set(list(w2)[:150])
        for w in list(probe)[:40]:
            if w:
                i = rng.randrange(len(w))
                probe.add(w[:i] + w[i + 1:])
                probe.add(w[:i] + rng.choice(alpha) + w[i:])
        for w in probe:
            ctx.count("words_compared")
            a, b = m1.member(w, nt), m2.member(w, nt)
            if a != b:
                return ctx.violation(None, f"L({nt}) differs on {w!r}: original {a}, re-parsed {b}", {**wit, "nt": nt, "word": w})
    ctx.held(json.dumps(g, sort_keys=True), sample={"grammar": g, "bnf": text, "reparsed": g2})


def run(ctx):
    while ctx.running():
        judge(ctx, gen_grammar(ctx.rng))


def replay(ctx, w):
    judge(ctx, w["grammar"])
