"""C22: same hash seed + same random seed => same solution sequence, in fresh processes, under perturbation."""
import json, os, subprocess, tempfile, shutil
from islamon.ref import semantics as R2
from islamon.gen import solvercases as SC

SPEC = {
    "quick": {"shards": 16, "budget_s": 55, "timeout_s": 360},
    "thorough": {"shards": 16, "budget_s": 1200, "timeout_s": 2400},
    "rule": "case = (constraint family or random formula, grammar, solver settings, random seed, PYTHONHASHSEED): twin A and twin B "
            "are fresh interpreter processes with the same hash seed and random.seed; B additionally runs with injected sleeps "
            "(before every Z3 call and at every queue pop, from a private PRNG), a different working directory and a larger "
            "environment; the machine is loaded by the other shards. Each child prints the sequence of str(solve()) / terminal "
            "exception (up to 8 calls) and a fingerprint of random.getstate() after every call. Judged: sequences identical. "
            "Pairs in which a twin saw a Z3 'unknown' (counted at z3.Solver.check), a TimeoutError (none is configured: the "
            "nested unsat check's wall-clock limit), hit the budget or the watchdog are inconclusive. distinct = distinct "
            "(family, settings, seed, solution sequence)",
    "minimum": {"quick": {"pairs_judged": 20, "pairs_with_3_solutions": 12, "perturbed_delays": 250},
                "thorough": {"pairs_judged": 340, "pairs_with_3_solutions": 240}},
    "assumptions": ["Z3's 500 ms budget is wall-clock: pairs with a Z3 'unknown' in either twin are set aside (the property is about "
                    "seeds, not load)", "sleep injection uses a private PRNG so the global random state is untouched"],
}

PY = "/venv/bin/python"


def child(case, hashseed, perturb, cwd, timeout):
    env = dict(os.environ)
    env["PYTHONHASHSEED"] = str(hashseed)
    env["ISLAMON_C22_PERTURB"] = "1" if perturb else "0"
    if perturb:
        env["ISLAMON_PADDING"] = "x" * 4000
    try:
        p = subprocess.run([PY, "-m", "islamon.c22child"], input=json.dumps(case).encode(), env=env, cwd=cwd, capture_output=True, timeout=timeout)
    except subprocess.TimeoutExpired:
        return None
    if p.returncode != 0:
        return {"crash": p.returncode, "err": p.stderr.decode("utf8", "replace")[-300:]}
    try:
        return json.loads(p.stdout.decode().strip().splitlines()[-1])
    except Exception:
        return {"crash": "no-output", "err": p.stderr.decode("utf8", "replace")[-300:]}


def run(ctx):
    rng = ctx.rng
    scratch = tempfile.mkdtemp(prefix="islamon-c22-")
    root = os.path.dirname(os.path.dirname(os.path.dirname(os.path.abspath(__file__))))
    try:
        while ctx.running():
            fam, gname, f = rng.choice(SC.families(rng)) if rng.random() < 0.75 else SC.random_family(rng)
            case = {"grammar": gname, "constraint": R2.pr(f), "settings": SC.settings(rng), "seed": rng.randrange(10 ** 6), "n": 8, "budget_s": 25}
            hs = rng.choice([0, 0, 1, 2, 7, 12345])
            ctx.ev()
            os.environ["PYTHONPATH"] = os.environ.get("PYTHONPATH", "")
            a = child(case, hs, False, root, 40)
            b = child(case, hs, True, scratch, 50)
            wit = {"family": fam, **case, "hashseed": hs}
            if a is None or b is None:
                ctx.inconclusive("child-watchdog")
                continue
            if "crash" in a or "crash" in b:
                ctx.count("child_crashed")
                ctx.inconclusive("child-crashed")
                continue
            if a["stats"]["z3_unknown"] or b["stats"]["z3_unknown"]:
                ctx.inconclusive("z3-unknown-in-a-twin")
                continue
            if any(o[0] in ("budget", "ctor-exc") for o in a["out"] + b["out"]):
                ctx.inconclusive("budget-or-constructor")
                continue
            if any(o[0] == "timeout" for o in a["out"] + b["out"]):
                # no timeout is configured for these solvers: a TimeoutError can only be the 2-second wall-clock limit of the
                # nested unsat-support check escaping (known finding C02:unsat-support:nested-check-timeout-...), i.e. load
                ctx.inconclusive("wall-clock-limit-inside-isla (nested unsat check)")
                continue
            ctx.count("perturbed_delays", b["stats"]["delays"])
            sa, sb = [o[:2] for o in a["out"]], [o[:2] for o in b["out"]]
            if sa != sb:
                first = next(i for i, (x, y) in enumerate(zip(sa + [None], sb + [None])) if x != y)
                ctx.violation(None, f"twin sequences differ at call #{first + 1}: {sa[first] if first < len(sa) else None} vs {sb[first] if first < len(sb) else None}"[:300],
                              {**wit, "twin_a": a["out"], "twin_b": b["out"]})
                continue
            if [o[2:] for o in a["out"]] != [o[2:] for o in b["out"]]:
                ctx.count("same_solutions_but_prng_state_differs")
            ctx.count("pairs_judged")
            if sum(1 for o in sa if o[0] == "tree") >= 3:
                ctx.count("pairs_with_3_solutions")
            ctx.held((fam, json.dumps(case["settings"], sort_keys=True), case["seed"], json.dumps(sa)),
                     sample={"family": fam, "constraint": case["constraint"][:120], "hashseed": hs, "seed": case["seed"], "sequence": [o[1] for o in sa][:5],
                             "delays_injected_in_twin_b": b["stats"]["delays"]})
    finally:
        shutil.rmtree(scratch, ignore_errors=True)


def replay(ctx, w):
    ctx.inconclusive("replay re-runs the generator; use seed/shard of the witness")
