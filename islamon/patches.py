"""Harness-side neutralisations of *known* mechanisms ("repaired twin").

Used (a) by classifiers: a violated case is re-executed with the patch on; if it then
holds, the violation is attributed to that mechanism key; (b) by "behind" passes that
look at the code a known crash hides. Never active while the primary verdict is taken.
"""
import contextlib


def _compat_safe():
    from returns.result import safe as real

    def safe(function=None, exceptions=None):
        if callable(function) and not isinstance(function, tuple):
            if exceptions is None:
                return real(function)
            return real(tuple(exceptions))(function)
        if function is not None and exceptions is None:  # safe((A, B)) decorator form
            return real(tuple(function))
        return real(tuple(exceptions))
    return safe


@contextlib.contextmanager
def returns_drift():
    """returns 0.29 API drift: safe(fn, exceptions=..)/safe(fn, (..)) and Maybe.nothing()"""
    import isla.mutator, isla.solver
    from returns.maybe import Maybe, Nothing
    saved = []
    cs = _compat_safe()
    for mod in (isla.mutator, isla.solver):
        saved.append((mod, "safe", mod.safe))
        mod.safe = cs
    had = "nothing" in Maybe.__dict__
    old = Maybe.__dict__.get("nothing")
    try:
        Maybe.nothing = staticmethod(lambda: Nothing)
    except Exception:
        pass
    try:
        yield
    finally:
        for mod, n, v in saved:
            setattr(mod, n, v)
        try:
            if had:
                Maybe.nothing = old
            else:
                del Maybe.nothing
        except Exception:
            pass


def is_returns_drift(exc):
    import traceback
    s = "".join(traceback.format_exception(type(exc), exc, exc.__traceback__))
    if isinstance(exc, TypeError) and "safe()" in s and ("exceptions" in s or "positional argument" in s):
        return True
    if isinstance(exc, AttributeError) and "nothing" in str(exc) and "Maybe" in str(exc):
        return True
    return False


@contextlib.contextmanager
def no_forall_drop():
    """repaired twin for the 'quantifier dropped' mechanism: ForallFormula.substitute_expressions without the shortcut that
    returns the bare inner formula when the bound variable no longer occurs in it"""
    import isla.language as L
    from isla.derivation_tree import DerivationTree
    orig = L.ForallFormula.substitute_expressions

    def substitute_expressions(self, subst_map):
        new_in_variable = self.in_variable
        if self.in_variable in subst_map:
            new_in_variable = subst_map[new_in_variable]
        elif isinstance(new_in_variable, DerivationTree):
            new_in_variable = new_in_variable.substitute(subst_map)
        return L.ForallFormula(self.bound_variable, new_in_variable, self.inner_formula.substitute_expressions(subst_map),
                               self.bind_expression, self.already_matched, id=self.id)
    L.ForallFormula.substitute_expressions = substitute_expressions
    try:
        yield
    finally:
        L.ForallFormula.substitute_expressions = orig


@contextlib.contextmanager
def count_search_not_a_verdict():
    """repaired twin for 'count: candidate search exhausted => False': while active, a False from count() on an OPEN tree
    that was reached through the bounded insert_tree search (the search was entered during that very call) is turned into
    "not ready". A False (or True) that count() returns without entering the search is left alone, so a different cause of
    a premature verdict is not attributed to this mechanism. Yields a dict with what was observed."""
    import isla.isla_predicates as P
    from isla.language import SemPredEvalResult
    seen = {"count_calls": 0, "false_after_search_on_open_tree": 0, "false_without_search_on_open_tree": 0}
    orig_insert = P.insert_tree
    orig_fun = P.COUNT_PREDICATE.eval_fun
    depth = [0]

    def insert_tree(*a, **k):
        depth[0] += 1
        return orig_insert(*a, **k)

    def count(graph, in_tree, needle, num, *a, **k):
        before = depth[0]
        r = orig_fun(graph, in_tree, needle, num, *a, **k)
        seen["count_calls"] += 1
        try:
            is_open = hasattr(in_tree, "is_open") and in_tree.is_open()
            if is_open and r.ready() and r.false():
                if depth[0] > before:
                    seen["false_after_search_on_open_tree"] += 1
                    return SemPredEvalResult(None)
                seen["false_without_search_on_open_tree"] += 1
        except Exception:
            pass
        return r
    P.insert_tree = insert_tree
    try:
        object.__setattr__(P.COUNT_PREDICATE, "eval_fun", count)
    except Exception:
        P.COUNT_PREDICATE.eval_fun = count
    try:
        yield seen
    finally:
        P.insert_tree = orig_insert
        try:
            object.__setattr__(P.COUNT_PREDICATE, "eval_fun", orig_fun)
        except Exception:
            P.COUNT_PREDICATE.eval_fun = orig_fun
