"""Oracle cross-checks run by setup.sh (a few seconds). Exit non-zero if a reference model is inconsistent."""
import random, sys, itertools
from islamon.ref.grammar import G, tstr
from islamon.gen import grammars as GG


def r1():
    rng = random.Random(1)
    n = 0
    for i in range(60):
        g = GG.random_grammar(rng, max_nts=4) if i >= len(GG.FEATURE) else list(GG.FEATURE.values())[i]
        m = G(g)
        if any(len(a) > 40 for alts in g.values() for a in alts):
            continue
        words, complete = m.language("<start>", maxlen=4, cap=6000)
        alpha = sorted({c for w in words for c in w}) or ["a"]
        for k in range(5):
            for tup in itertools.product(alpha[:3], repeat=k):
                w = "".join(tup)
                mem = m.member(w)
                if w in words and not mem:
                    sys.exit(f"R1 selfcheck: chart rejects enumerated word {w!r} of {g}")
                if complete and mem and w not in words:
                    sys.exit(f"R1 selfcheck: chart accepts {w!r}, brute force does not derive it: {g}")
                n += 1
        for _ in range(5):
            t = m.random_tree(rng, budget=10)
            assert m.valid_tree(t, "<start>", allow_open=False) is None, (g, t)
            if len(tstr(t)) <= 20:
                assert m.member(tstr(t)), (g, t)
    assert G(GG.FEATURE["ambig"]).count_derivations("aaa") >= 2
    assert G(GG.FEATURE["nest"]).count_derivations("a(b)") == 1
    assert G({"<start>": ["<A>"], "<A>": ["<B>", "a"], "<B>": ["<A>"]}).derives_self()
    assert not G(GG.FEATURE["leftrec"]).derives_self()
    return n


def main():
    n = r1()
    print(f"selfcheck: R1 ok ({n} membership comparisons)")
    for name in ("r3", "r4", "r5", "r7"):
        try:
            mod = __import__(f"islamon.selfcheck_{name}", fromlist=["main"])
        except ImportError:
            continue
        mod.main()


if __name__ == "__main__":
    main()
