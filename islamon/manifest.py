"""Regenerates MANIFEST.json from the check modules that exist: python -m islamon.manifest"""
import json, os, importlib

ROOT = os.path.dirname(os.path.dirname(os.path.abspath(__file__)))

TEXT = {
    "C01": ("oracle-monitored solver runs: every tree returned by solve() is judged by R1 (validity, membership) and the reference semantics R2", "R1/R2 reference models, Z3 for atoms"),
    "C02": ("history checker over recorded solve() outcomes with a virtual clock placing TimeoutError", "virtual clock shim represents time.time()"),
    "C03": ("differential monitor: evaluate()/check() vs reference semantics R2 on generated (formula, closed tree) pairs", "R2 reading of islaspec.rst; Z3"),
    "C04": ("exhaustive node-pair monitor: StructuralPredicate.evaluate vs path-based reference R3", "R3 reading of the spec table"),
    "C05": ("differential monitor: is_valid/evaluate_z3_expression/ground substitution vs a plain Z3 oracle on typed random ground terms", "Z3 4.11 as the meaning of SMT-LIB atoms"),
    "C06": ("self-consistency monitor: definite verdicts on open prefixes vs verdicts on id-preserving completions", "ISLa's own evaluate on closed trees"),
    "C07": ("round-trip monitor on parse_isla/unparse_isla with equality, idempotence and verdict comparison", "generated constraints accepted by the first parse"),
    "C08": ("differential monitor: sugared vs hand-expanded core constraints evaluated on trees (+R2)", "desugaring by construction from one reference AST"),
    "C09": ("verdict-algebra monitor on negation/NNF/DNF/renaming/and/or over closed trees", "ISLa's evaluate on both sides"),
    "C10": ("differential monitor: EarleyParser/ISLaSolver.parse vs independent span-chart recognizer over all short strings", "R1 recognizer"),
    "C11": ("round-trip monitor: unparse_grammar/parse_bnf identity or bounded language equality", "R1 bounded enumeration"),
    "C12": ("postcondition monitor on fuzzer expansions and mutations (validity, prefix/id preservation)", "R1 validity"),
    "C13": ("postcondition monitor on every insert_tree result (validity, id/label retention, inserted tree present), half the shards under python -O", "R1 validity"),
    "C14": ("postcondition monitors on create_fixed_length_tree, model-value extraction and count proposals", "R1 validity and reachability"),
    "C15": ("differential monitor: numeric_intervals_from_regex / compress_concatenation_elements vs own regex matcher on bounded enumeration", "R5 matcher cross-checked with Z3 InRe"),
    "C16": ("operation-history monitor: DerivationTree methods vs nested-list model after every operation", "raw .value/.children/.id as structure"),
    "C17": ("history monitor mixing cache computations and serializations; decoded == original; original unchanged", "structure read through raw attributes"),
    "C18": ("oracle monitor on check/parse/repair/mutate vs R1 membership and R2 satisfaction", "R1/R2"),
    "C19": ("process-level monitor: argv/files -> exit code/stdout/stderr table, in-process main() plus subprocess slice", "R1/R2 for expected verdicts"),
    "C20": ("relation monitor on SemanticPredicate.evaluate verdicts and proposed replacements", "arithmetic/length/count relations"),
    "C21": ("domain-validator monitor (csv, expat, docutils+text rules, tar fields) on solver outputs for shipped formalizations", "csv/expat/docutils as independent validity"),
    "C22": ("twin-process monitor: identical solution sequences under load/delay perturbation", "pairs with Z3 unknown are set aside"),
}


def main():
    props = [json.loads(l) for l in open(os.path.join(ROOT, "properties.jsonl"))]
    checks, na = [], []
    for p in props:
        pid = p["id"]
        path = os.path.join(ROOT, "islamon", "checks", pid.lower() + ".py")
        if not os.path.exists(path):
            na.append({"property_id": pid, "reason": "check not built yet in this round (work in progress; applicable in principle, see DESIGN.md section 4)"})
            continue
        t = TEXT[pid]
        checks.append({
            "property_id": pid,
            "quick_cmd": f"./check {pid} --tier quick",
            "thorough_cmd": f"./check {pid} --tier thorough",
            "evidence_file": f"/verif/evidence/{pid}.json",
            "replay_cmd_template": f"./check {pid} --replay {{path}}",
            "engine": "islamon",
            "level_claimed": {"category": "exploration",
                              "text": "Runtime monitoring of the real functions on generated, hostile workloads; held on the executions "
                                      "observed (counts and samples in the evidence file), not a proof: " + t[0],
                              "design_ref": f"DESIGN.md section 4 ({pid})"},
            "level_note": "trusted base: " + t[1] + "; coverage is what the seeded generators reach",
            "technique": "runtime monitoring: " + t[0].split(":")[0],
        })
    man = {
        "version": 1,
        "setup_cmd": "sh ./setup.sh",
        "hooks": {"guard": "ISLA_VERIF_MONITORS",
                  "enable": "no source hooks: monitors are installed from the harness (wrappers/sys.monitoring) in child processes started with PYTHONPATH=/repo/src:/verif and ISLA_VERIF_MONITORS=1",
                  "baseline_off_cmd": "cd /repo && /venv/bin/python -m pytest -ra -q -p no:cacheprovider --timeout=900 --continue-on-collection-errors",
                  "source_commits": [], "add_only": True},
        "engines": [{"name": "islamon", "path": "/verif/islamon", "serves_properties": [c["property_id"] for c in checks],
                     "kind_free_text": "hand-written runtime-monitoring harness: sharded workload generators, reference oracles (R1-R7), verdict logs, known-finding classifier"}],
        "checks": checks,
        "not_applicable": na,
        "notes": "All checks run /repo's working tree (PYTHONPATH=/repo/src first). Exit 0 held / 1 VIOLATION / 2 INCONCLUSIVE (deciding monitor observed too little).",
    }
    json.dump(man, open(os.path.join(ROOT, "MANIFEST.json"), "w"), indent=1)
    print("MANIFEST.json:", len(checks), "checks,", len(na), "not yet built")


if __name__ == "__main__":
    main()
