"""Virtual clock for isla.solver: time.time() advances by a fixed step per call, so a TimeoutError can be placed
after a chosen number of solver-loop iterations without waiting."""
import time as _real


class VClock:
    def __init__(self, step):
        self.step, self.calls, self.base = step, 0, 1_000_000.0

    def time(self):
        self.calls += 1
        return self.base + self.calls * self.step

    def __getattr__(self, name):          # everything else (sleep, perf_counter, ...) is the real module
        return getattr(_real, name)


class installed:
    def __init__(self, step):
        self.clock = VClock(step)

    def __enter__(self):
        import isla.solver as S
        self.S, self.orig = S, S.time
        S.time = self.clock
        return self.clock

    def __exit__(self, *a):
        self.S.time = self.orig
