"""Runner: shards a check over worker processes, folds verdict logs, classifies
violations against known_findings.json, writes evidence, prints interface lines."""
import sys, os, json, time, subprocess, importlib, argparse, hashlib, shutil, tempfile

ROOT = os.path.dirname(os.path.dirname(os.path.abspath(__file__)))
PY = "/venv/bin/python"
REPO = os.environ.get("ISLA_REPO", "/repo")


def child_env(extra=None):
    env = dict(os.environ)
    env["PYTHONPATH"] = f"{REPO}/src:{ROOT}"
    env.setdefault("PYTHONHASHSEED", "0")
    env["ISLA_VERIF_MONITORS"] = "1"
    env["PYTHONWARNINGS"] = "ignore"
    env["PYTHONDONTWRITEBYTECODE"] = "1"
    if extra:
        env.update(extra)
    return env


def load_known():
    p = os.path.join(ROOT, "known_findings.json")
    if not os.path.exists(p):
        return {"known": [], "fixed": []}
    return json.load(open(p))


def main(argv=None):
    ap = argparse.ArgumentParser()
    ap.add_argument("pid")
    ap.add_argument("--tier", default=os.environ.get("VERIF_TIER", "quick"), choices=["quick", "thorough"])
    ap.add_argument("--seed", type=int, default=int(os.environ.get("VERIF_SEED", "0")))
    ap.add_argument("--replay")
    ap.add_argument("--shards", type=int)
    ap.add_argument("--no-evidence", action="store_true")
    ap.add_argument("--evidence-dir", default=os.path.join(ROOT, "evidence"))
    a = ap.parse_args(argv)
    pid = a.pid.upper()
    mod = importlib.import_module(f"islamon.checks.{pid.lower()}")
    spec = mod.SPEC

    if a.replay:
        r = subprocess.run([PY, "-m", "islamon.worker", "--replay", a.replay, pid], env=child_env(), cwd=ROOT)
        return r.returncode

    t0 = time.time()
    tier = spec[a.tier]
    nshards = a.shards or tier.get("shards", 16)
    timeout = tier["timeout_s"]
    work = tempfile.mkdtemp(prefix=f"islamon-{pid}-")
    procs = []
    try:
        for k in range(nshards):
            out = os.path.join(work, f"shard-{k}.json")
            cmd = [PY] + (["-O"] if (spec.get("dash_O_odd_shards") and k % 2 == 1) else []) + [
                "-m", "islamon.worker", pid, a.tier, str(a.seed), str(k), str(nshards), out, str(tier["budget_s"])]
            log = open(os.path.join(work, f"shard-{k}.log"), "wb")
            procs.append((k, out, log, subprocess.Popen(cmd, env=child_env(spec.get("env")), cwd=ROOT,
                                                        stdout=log, stderr=subprocess.STDOUT, start_new_session=True)))
        shard_results, dead = [], []
        deadline = time.time() + timeout
        for k, out, log, p in procs:
            try:
                p.wait(timeout=max(1, deadline - time.time()))
            except subprocess.TimeoutExpired:
                try:
                    os.killpg(p.pid, 9)
                except Exception:
                    p.kill()
                p.wait()
            log.close()
            rec = None
            for cand in (out, out + ".hb"):
                if os.path.exists(cand):
                    try:
                        rec = json.load(open(cand))
                        break
                    except Exception:
                        pass
            if rec is None or not rec.get("complete"):
                tail = open(os.path.join(work, f"shard-{k}.log"), "rb").read()[-1500:].decode("utf8", "replace")
                dead.append({"shard": k, "rc": p.returncode, "log_tail": tail})
            if rec is not None:
                shard_results.append(rec)
        return fold(pid, mod, spec, a, shard_results, dead, t0, nshards)
    finally:
        for k, out, log, p in procs:
            try:
                os.killpg(p.pid, 9)
            except Exception:
                pass
        shutil.rmtree(work, ignore_errors=True)


def fold(pid, mod, spec, a, shard_results, dead, t0, nshards):
    counters, reasons, shapes, samples, viol = {}, {}, set(), [], []
    evaluations = judged = 0
    for r in shard_results:
        evaluations += r["evaluations"]
        judged += r["judged"]
        shapes.update(r["shapes"])
        for k, v in r["counters"].items():
            counters[k] = counters.get(k, 0) + v
        for k, v in r["inconclusive"].items():
            reasons[k] = reasons.get(k, 0) + v
        samples.extend(r["samples"])
        viol.extend(r["violations"])
    if hasattr(mod, "derive"):
        counters.update(mod.derive(counters))
    known = load_known()
    known_keys = {(e["property"], e["key"]): e for e in known.get("known", [])}
    kf_seen, new = {}, []
    for v in viol:
        e = known_keys.get((pid, v.get("key")))
        if e is not None:
            kf_seen.setdefault(v["key"], []).append(v)
        else:
            new.append(v)
    # minimum-observation requirements
    unmet = []
    for name, minimum in spec.get("minimum", {}).get(a.tier, spec.get("minimum", {}).get("quick", {})).items():
        have = {"judged": judged, "distinct": len(shapes)}.get(name, counters.get(name, 0))
        if have < minimum:
            unmet.append(f"{name}={have}<{minimum}")
    # stable sample choice
    samples.sort(key=lambda s: hashlib.md5(json.dumps(s, sort_keys=True, default=str).encode()).hexdigest())
    ev = {
        "property_id": pid, "tier": a.tier, "seed": a.seed, "level": "exploration",
        "coverage": {
            "evaluations": evaluations,
            "distinct_nontrivial": len(shapes),
            "rule": spec["rule"],
            "samples": samples[:8],
            "judged": judged,
            "counters": dict(sorted(counters.items())),
            "inconclusive_reasons": dict(sorted(reasons.items())),
            "known_finding_keys_seen": {k: len(v) for k, v in sorted(kf_seen.items())},
            "new_violations": len(new),
            "shards": nshards, "shards_incomplete": dead,
            "minimum_unmet": unmet,
        },
        "assumptions": spec.get("assumptions", []),
        "wall_s": round(time.time() - t0, 2),
        "violations": len(new),
    }
    for k in sorted(kf_seen):
        e = known_keys[(pid, k)]
        print(f"KNOWN-FINDING: property={pid} {k} {e['what']} (seen {len(kf_seen[k])}x)")
    rc = 0
    if new:
        os.makedirs(os.path.join(ROOT, "replay"), exist_ok=True)
        seenk = {}
        for v in new:
            seenk.setdefault(v.get("key") or "unclassified", []).append(v)
        for i, (k, vs) in enumerate(sorted(seenk.items())):
            path = os.path.join(ROOT, "replay", f"{pid}-{a.tier}-{a.seed}-{i}.json")
            json.dump({"property": pid, "key": k, "count": len(vs), "witness": vs[0]}, open(path, "w"), indent=1, default=str)
            print(f"VIOLATION property={pid} replay={path}")
            print(f"  key={k} n={len(vs)} what={vs[0].get('what')}")
        rc = 1
    elif unmet or (dead and len(dead) > nshards // 2):
        print(f"INCONCLUSIVE property={pid} unmet={unmet} dead_shards={len(dead)}")
        rc = 2
    if not a.no_evidence:
        os.makedirs(a.evidence_dir, exist_ok=True)
        json.dump(ev, open(os.path.join(a.evidence_dir, f"{pid}.json"), "w"), indent=1, default=str)
    print(f"{pid} tier={a.tier} seed={a.seed} evaluations={evaluations} judged={judged} distinct={len(shapes)} "
          f"known={sum(len(v) for v in kf_seen.values())} new={len(new)} inconclusive={sum(reasons.values())} "
          f"dead_shards={len(dead)} wall={ev['wall_s']}s rc={rc}")
    if dead:
        for d in dead[:3]:
            print("  dead shard", d["shard"], "rc", d["rc"], "|", d["log_tail"][-400:].replace("\n", " | "))
    return rc


if __name__ == "__main__":
    sys.exit(main())
