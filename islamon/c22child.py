"""Child process for C22: reads a JSON case on stdin, seeds random, solves, prints one JSON line."""
import sys, os, json, random, hashlib, time, warnings, logging
warnings.filterwarnings("ignore")
logging.disable(logging.CRITICAL)
sys.setrecursionlimit(10000)


def fp():
    return hashlib.md5(repr(random.getstate()).encode()).hexdigest()[:10]


def main():
    case = json.load(sys.stdin)
    perturb = os.environ.get("ISLAMON_C22_PERTURB") == "1"
    import z3
    import isla.z3_helpers as ZH
    import isla.solver as S
    from islamon.gen import grammars as GG, solvercases as SC
    stats = {"z3_unknown": 0, "z3_calls": 0, "time_calls": 0, "delays": 0}
    prng = random.Random(12345)   # private PRNG for the injected delays: the global one is the subject of the check
    orig = ZH.z3_solve

    def z3_solve(*a, **k):
        stats["z3_calls"] += 1
        if perturb:
            stats["delays"] += 1
            time.sleep(prng.random() * 0.004)
        return orig(*a, **k)
    # z3_solve retries up to 20 times after an 'unknown' (with a reshuffled query and a new Z3 seed) and reports only the last
    # answer; other call sites use z3.Solver directly. Count every 'unknown' at the Solver itself.
    _check = z3.Solver.check

    def check(self, *a, **k):
        r = _check(self, *a, **k)
        stats["solver_checks"] = stats.get("solver_checks", 0) + 1
        if r == z3.unknown:
            stats["z3_unknown"] += 1
        return r
    z3.Solver.check = check
    for mod in list(sys.modules.values()):
        if mod is not None and getattr(mod, "__name__", "").startswith("isla") and getattr(mod, "z3_solve", None) is orig:
            mod.z3_solve = z3_solve
    if perturb:
        import heapq as _hq

        class HQ:
            def __getattr__(self, n):
                return getattr(_hq, n)

            def heappop(self, q):
                stats["delays"] += 1
                time.sleep(prng.random() * 0.003)
                return _hq.heappop(q)
        S.heapq = HQ()
    g = GG.FEATURE[case["grammar"]]
    random.seed(case["seed"])
    out = []
    try:
        solver = SC.make_solver(g, case["constraint"], case["settings"], None)
        t0 = time.time()
        for k in range(case["n"]):
            if time.time() - t0 > case.get("budget_s", 40):
                out.append(["budget", None])
                break
            try:
                out.append(["tree", str(solver.solve()), fp()])
            except StopIteration:
                out.append(["stop", None, fp()])
                break
            except TimeoutError:
                out.append(["timeout", None, fp()])
                break
            except Exception as e:
                out.append(["exc", type(e).__name__, fp()])
                break
    except Exception as e:
        out.append(["ctor-exc", type(e).__name__])
    print(json.dumps({"out": out, "stats": stats}))


if __name__ == "__main__":
    main()
