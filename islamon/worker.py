"""Shard worker: runs islamon.checks.<pid>.run(ctx) and writes the verdict log."""
import sys, os, json, time, random, importlib, hashlib, signal, traceback, warnings, logging

warnings.filterwarnings("ignore")
logging.disable(logging.CRITICAL)
sys.setrecursionlimit(10000)


class Watchdog(Exception):
    pass


def _alarm(*_):
    raise Watchdog()


class Ctx:
    MAX_VIOL = 60
    MAX_SAMPLES = 4

    def __init__(self, pid, tier, seed, shard, nshards, out, budget_s):
        self.pid, self.tier, self.seed, self.shard, self.nshards = pid, tier, seed, shard, nshards
        self.out = out
        self.budget_s = budget_s
        self.t0 = time.time()
        self.rng = random.Random(f"{pid}-{seed}-{shard}")
        self.evaluations = 0
        self.judged = 0
        self.shapes = set()
        self.counters = {}
        self.reasons = {}
        self.samples = []
        self.violations = []
        self._viol_keys = {}
        self._last_hb = time.time()
        self.optimized = not __debug__
        signal.signal(signal.SIGALRM, _alarm)

    # -- budget -----------------------------------------------------------
    def time_left(self):
        return self.budget_s - (time.time() - self.t0)

    def running(self):
        self.heartbeat()
        return self.time_left() > 0

    # -- verdicts ---------------------------------------------------------
    def ev(self, n=1):
        self.evaluations += n

    def count(self, name, n=1):
        self.counters[name] = self.counters.get(name, 0) + n

    def held(self, shape=None, sample=None):
        self.judged += 1
        if shape is not None:
            self.shapes.add(hashlib.md5(repr(shape).encode()).hexdigest()[:12])
        if sample is not None and len(self.samples) < self.MAX_SAMPLES:
            self.samples.append(sample)

    def inconclusive(self, reason):
        self.reasons[reason] = self.reasons.get(reason, 0) + 1

    def violation(self, key, what, witness):
        """key: mechanism key (str) or None when unclassified"""
        self.judged += 1
        k = key or "unclassified:" + what[:60]
        n = self._viol_keys.get(k, 0)
        self._viol_keys[k] = n + 1
        self.count("violations_total")
        if n == 0 or (n < 3 and len(self.violations) < self.MAX_VIOL):
            self.violations.append({"key": key, "what": what, "witness": witness,
                                    "seed": self.seed, "shard": self.shard, "tier": self.tier})
        elif n < 200:
            # still account for it so that KNOWN-FINDING counts are honest
            self.violations.append({"key": key, "what": what, "witness": None, "seed": self.seed,
                                    "shard": self.shard, "tier": self.tier})

    # -- guarded call -----------------------------------------------------
    def guarded(self, fn, *a, timeout=10, **kw):
        """returns ('ok', value) | ('exc', exception) | ('watchdog', None)"""
        signal.alarm(int(timeout))
        try:
            v = fn(*a, **kw)
            signal.alarm(0)
            return "ok", v
        except Watchdog:
            signal.alarm(0)
            return "watchdog", None
        except RecursionError as e:
            signal.alarm(0)
            return "exc", e
        except Exception as e:
            signal.alarm(0)
            return "exc", e
        finally:
            signal.alarm(0)

    # -- output -----------------------------------------------------------
    def dump(self, complete, path=None):
        rec = {"complete": complete, "shard": self.shard, "evaluations": self.evaluations, "judged": self.judged,
               "shapes": sorted(self.shapes), "counters": self.counters, "inconclusive": self.reasons,
               "samples": self.samples, "violations": self.violations, "wall_s": time.time() - self.t0}
        p = path or self.out
        tmp = p + ".tmp"
        with open(tmp, "w") as f:
            json.dump(rec, f, default=str)
        os.replace(tmp, p)

    def heartbeat(self):
        if time.time() - self._last_hb > 5:
            self._last_hb = time.time()
            self.dump(False, self.out + ".hb")


def exc_site(e):
    """(type name, innermost isla frame 'file:function')"""
    tb = traceback.extract_tb(e.__traceback__)
    fr = [x for x in tb if "/isla/" in x.filename or "/isla_formalizations/" in x.filename]
    where = f"{os.path.basename(fr[-1].filename)}:{fr[-1].name}" if fr else "?"
    return type(e).__name__, where


def main():
    if sys.argv[1] == "--replay":
        path, pid = sys.argv[2], sys.argv[3]
        mod = importlib.import_module(f"islamon.checks.{pid.lower()}")
        rec = json.load(open(path))
        ctx = Ctx(pid, "quick", 0, 0, 1, "/dev/null", 600)
        w = rec["witness"]["witness"] if "witness" in rec.get("witness", {}) else rec.get("witness")
        mod.replay(ctx, w)
        for v in ctx.violations:
            print("VIOLATED", v["key"], v["what"])
        print("replay verdict:", "violated" if ctx.violations else ("held" if ctx.judged else "inconclusive"),
              ctx.reasons)
        sys.exit(1 if ctx.violations else 0)
    pid, tier, seed, shard, nshards, out, budget = sys.argv[1:8]
    mod = importlib.import_module(f"islamon.checks.{pid.lower()}")
    ctx = Ctx(pid, tier, int(seed), int(shard), int(nshards), out, float(budget))
    random.seed(f"global-{seed}-{shard}")
    mod.run(ctx)
    ctx.dump(True)


if __name__ == "__main__":
    main()
