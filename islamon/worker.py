"""Shard worker: runs islamon.checks.<pid>.run(ctx) and writes the verdict log."""
import sys, os, json, time, random, importlib, hashlib, signal, traceback, warnings, logging

if __name__ == "__main__":  # one module identity: checks import islamon.worker (Watchdog, exc_site)
    sys.modules.setdefault("islamon.worker", sys.modules["__main__"])

import faulthandler
faulthandler.enable()
warnings.filterwarnings("ignore")
logging.disable(logging.CRITICAL)
sys.setrecursionlimit(10000)


class Watchdog(BaseException):
    """BaseException so that `except Exception` / returns.safe inside the code under test cannot swallow it"""


_ARMED = False


def _alarm(*_):
    if _ARMED:
        raise Watchdog()


class Ctx:
    MAX_VIOL = 60
    MAX_SAMPLES = 4

    def __init__(self, pid, tier, seed, shard, nshards, out, budget_s):
        self.pid, self.tier, self.seed, self.shard, self.nshards = pid, tier, seed, shard, nshards
        self.out = out
        self.budget_s = budget_s
        self.t0 = time.time()
        self.rng = random.Random(f"{pid}-{seed}-{shard}")
        self.evaluations = 0
        self.judged = 0
        self.shapes = set()
        self.counters = {}
        self.reasons = {}
        self.samples = []
        self.violations = []
        self._viol_keys = {}
        self._last_hb = time.time()
        self.optimized = not __debug__
        self.last_exc = None
        self._deadlines = []
        signal.signal(signal.SIGALRM, _alarm)

    # -- budget -----------------------------------------------------------
    def time_left(self):
        return self.budget_s - (time.time() - self.t0)

    def running(self):
        self.heartbeat()
        return self.time_left() > 0

    # -- verdicts ---------------------------------------------------------
    def ev(self, n=1):
        self.evaluations += n

    def count(self, name, n=1):
        self.counters[name] = self.counters.get(name, 0) + n

    def held(self, shape=None, sample=None):
        self.judged += 1
        if shape is not None:
            self.shapes.add(hashlib.md5(repr(shape).encode()).hexdigest()[:12])
        if sample is not None and len(self.samples) < self.MAX_SAMPLES:
            self.samples.append(sample)

    def inconclusive(self, reason):
        self.reasons[reason] = self.reasons.get(reason, 0) + 1

    def violation(self, key, what, witness):
        """key: mechanism key (str) or None when unclassified"""
        if ("Z3Exception" in what or "Sort mismatch" in what) and not z3_sane():
            # the Z3 context of this process no longer answers a trivial query (seen once: after an interruption inside
            # Z3, every later query in that shard raised "Sort mismatch"). Nothing this process reports about Z3 can be
            # believed: the case is inconclusive and the process is replaced (the supervisor restarts a shard that dies by a
            # signal).
            self.inconclusive("z3-context-corrupted-in-this-process")
            self.count("z3_context_corrupted")
            if self.out != "/dev/null":
                try:
                    self.dump(False, self.out + ".hb")
                except Exception:
                    pass
                os.kill(os.getpid(), signal.SIGKILL)
            return
        self.judged += 1
        k = key or "unclassified:" + what[:60]
        n = self._viol_keys.get(k, 0)
        self._viol_keys[k] = n + 1
        self.count("violations_total")
        if n == 0 or (n < 3 and len(self.violations) < self.MAX_VIOL):
            self.violations.append({"key": key, "what": what, "witness": witness,
                                    "seed": self.seed, "shard": self.shard, "nshards": self.nshards, "tier": self.tier, "budget_s": self.budget_s})
        elif n < 200:
            # still account for it so that KNOWN-FINDING counts are honest
            self.violations.append({"key": key, "what": what, "witness": None, "seed": self.seed,
                                    "shard": self.shard, "tier": self.tier})

    # -- guarded call -----------------------------------------------------
    def guarded(self, fn, *a, timeout=10, **kw):
        """returns ('ok', value) | ('exc', exception) | ('watchdog', None). Nest-safe: an inner call never
        extends an outer deadline, and the outer alarm is re-armed when the inner call returns. The alarm re-fires every
        0.5 s (code under test may swallow it); stragglers that arrive while a verdict is already being produced are
        absorbed here and never escape."""
        global _ARMED
        now = time.time()
        deadline = now + timeout
        if self._deadlines:
            deadline = min(deadline, self._deadlines[-1])
        self._deadlines.append(deadline)
        depth = len(self._deadlines)
        result = None
        try:
            try:
                _ARMED = True
                signal.setitimer(signal.ITIMER_REAL, max(0.01, deadline - now), 0.5)
                v = fn(*a, **kw)
                _ARMED = False
                result = ("ok", v)
            except Watchdog:
                _ARMED = False
                result = ("watchdog", None)
            except Exception as e:
                _ARMED = False
                if "Watchdog" in repr(e):  # alarm raised inside a ctypes callback surfaces as ctypes.ArgumentError
                    result = ("watchdog", None)
                elif isinstance(e, MemoryError):   # resource exhaustion is not a verdict (same standing as a timeout)
                    result = ("watchdog", None)
                else:
                    self.last_exc = e
                    result = ("exc", e)
        except Watchdog:          # a re-fired alarm arrived while the verdict was being produced
            _ARMED = False
            result = result or ("watchdog", None)
        for _ in range(3):        # cleanup must complete even if one more straggler arrives
            try:
                _ARMED = False
                signal.setitimer(signal.ITIMER_REAL, 0)
                del self._deadlines[depth - 1:]
                break
            except Watchdog:
                continue
        if self._deadlines:
            if result[0] == "watchdog" and time.time() >= self._deadlines[-1] - 0.005:
                _ARMED = True
                raise Watchdog()   # the outer deadline expired as well: let the outer frame report it
            _ARMED = True
            signal.setitimer(signal.ITIMER_REAL, max(0.01, self._deadlines[-1] - time.time()), 0.5)
        return result

    # -- output -----------------------------------------------------------
    def dump(self, complete, path=None):
        rec = {"complete": complete, "shard": self.shard, "evaluations": self.evaluations, "judged": self.judged,
               "shapes": sorted(self.shapes), "counters": self.counters, "inconclusive": self.reasons,
               "samples": self.samples, "violations": self.violations, "wall_s": time.time() - self.t0}
        p = path or self.out
        tmp = p + ".tmp"
        with open(tmp, "w") as f:
            json.dump(rec, f, default=str)
        os.replace(tmp, p)

    def heartbeat(self):
        if time.time() - self._last_hb > 3:
            self._last_hb = time.time()
            self.dump(False, self.out + ".hb")


def z3_sane():
    """does this process's Z3 still answer a trivial, well-sorted query correctly?"""
    try:
        import z3
        s = z3.Solver()
        s.set("timeout", 2000)
        x = z3.String("islamon_sanity_x")
        s.add(z3.InRe(x, z3.Re("ab")), z3.Length(x) == 2)
        if s.check() != z3.sat:
            return False
        return z3.is_true(z3.simplify(z3.InRe(z3.StringVal("ab"), z3.Re("ab"))))
    except Exception:
        return False


def exc_site(e):
    """(type name, innermost isla frame 'file:function')"""
    tb = traceback.extract_tb(e.__traceback__)
    fr = [x for x in tb if "/isla/" in x.filename or "/isla_formalizations/" in x.filename]
    where = f"{os.path.basename(fr[-1].filename)}:{fr[-1].name}" if fr else "?"
    return type(e).__name__, where


def main():
    if sys.argv[1] == "--replay":
        path, pid = sys.argv[2], sys.argv[3]
        mod = importlib.import_module(f"islamon.checks.{pid.lower()}")
        rec = json.load(open(path))
        v = rec.get("witness", {})
        w = v["witness"] if isinstance(v, dict) and "witness" in v else v
        ctx = Ctx(pid, "quick", 0, 0, 1, "/dev/null", 600)
        if w is not None:
            mod.replay(ctx, w)
        if not ctx.violations and not ctx.judged and isinstance(v, dict) and "shard" in v and "nshards" in v:
            # generic replay: re-run the shard that produced the witness (same seed, shard, tier, budget => same PRNG stream)
            print(f"re-running shard {v['shard']}/{v['nshards']} seed {v['seed']} tier {v['tier']} ...")
            ctx = Ctx(pid, v["tier"], int(v["seed"]), int(v["shard"]), int(v["nshards"]), "/dev/null", float(v.get("budget_s", 60)))
            random.seed(f"global-{v['seed']}-{v['shard']}-0")
            mod.run(ctx)
            ctx.violations = [x for x in ctx.violations if x.get("key") == rec.get("key") or (rec.get("key") == "unclassified" and x.get("key") is None)]
            if not ctx.violations:
                # the re-run shard judged other cases; that says nothing about the recorded one
                ctx.judged = 0
                ctx.reasons["shard re-run did not reproduce the recorded key"] = 1
        for x in ctx.violations[:5]:
            print("VIOLATED", x["key"], x["what"])
        print("replay verdict:", "violated" if ctx.violations else ("held" if ctx.judged else "inconclusive"), ctx.reasons)
        sys.exit(1 if ctx.violations else 0)
    if sys.argv[1] == "--child":
        try:    # a runaway case (one C06 evaluation once grew to 60 GB) must be the kernel's first choice, not a bystander;
            open("/proc/self/oom_score_adj", "w").write("1000")     # the supervisor restarts the shard afterwards
        except Exception:
            pass
        pid, tier, seed, shard, nshards, out, budget, attempt = sys.argv[2:10]
        mod = importlib.import_module(f"islamon.checks.{pid.lower()}")
        ctx = Ctx(pid, tier, int(seed), int(shard), int(nshards), out, float(budget))
        if int(attempt):
            ctx.rng = random.Random(f"{pid}-{seed}-{shard}-retry{attempt}")
        random.seed(f"global-{seed}-{shard}-{attempt}")
        mod.run(ctx)
        try:
            from islamon.ref import z3oracle
            for k, v in z3oracle.STATS.items():
                if v:
                    ctx.count("z3oracle_" + k, v)
        except Exception:
            pass
        ctx.dump(True)
        return
    supervise(*sys.argv[1:8])


def merge(recs, complete, crashes):
    out = {"complete": complete, "shard": recs[0]["shard"] if recs else 0, "evaluations": 0, "judged": 0, "shapes": set(),
           "counters": {}, "inconclusive": {}, "samples": [], "violations": [], "wall_s": 0}
    for r in recs:
        out["evaluations"] += r["evaluations"]
        out["judged"] += r["judged"]
        out["shapes"].update(r["shapes"])
        for k, v in r["counters"].items():
            out["counters"][k] = out["counters"].get(k, 0) + v
        for k, v in r["inconclusive"].items():
            out["inconclusive"][k] = out["inconclusive"].get(k, 0) + v
        out["samples"].extend(r["samples"])
        out["violations"].extend(r["violations"])
        out["wall_s"] += r["wall_s"]
    out["shapes"] = sorted(out["shapes"])
    if crashes:
        out["counters"]["worker_crashes"] = len(crashes)
        out["inconclusive"]["worker-crash"] = len(crashes)
        out["crash_tails"] = crashes[:3]
    return out


def supervise(pid, tier, seed, shard, nshards, out, budget):
    """runs the shard in a child process; a child killed by a signal (native crash in Z3/datrie) is replaced by a
    fresh one with a new PRNG stream for the remaining budget; partial results come from the heartbeat file."""
    import subprocess
    t0 = time.time()
    budget = float(budget)
    recs, crashes = [], []
    complete = False
    for attempt in range(8):
        left = budget - (time.time() - t0)
        if attempt and left < 4:
            break
        cout = f"{out}.a{attempt}"
        cmd = [sys.executable] + (["-O"] if not __debug__ else []) + ["-m", "islamon.worker", "--child", pid, tier, seed, shard,
                                                                       nshards, cout, str(max(left, 1)), str(attempt)]
        p = subprocess.run(cmd, stderr=subprocess.PIPE)
        rec = None
        for cand in (cout, cout + ".hb"):
            if os.path.exists(cand):
                try:
                    rec = json.load(open(cand))
                    break
                except Exception:
                    pass
        if rec is not None:
            recs.append(rec)
        if p.returncode == 0 and rec is not None and rec.get("complete"):
            complete = True
            break
        tail = p.stderr.decode("utf8", "replace")[-1200:]
        crashes.append({"attempt": attempt, "rc": p.returncode, "tail": tail})
        sys.stderr.write(f"[supervisor] shard {shard} attempt {attempt} rc={p.returncode}\n{tail}\n")
        if p.returncode is not None and p.returncode > 0:
            break  # a Python-level failure is a harness bug, not a native crash: do not mask it by retrying
    with open(out + ".tmp", "w") as f:
        json.dump(merge(recs, complete, crashes), f, default=str)
    os.replace(out + ".tmp", out)


if __name__ == "__main__":
    main()
