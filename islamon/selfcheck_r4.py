import z3
from islamon.ref.z3oracle import truth, has_value, simplify_value


def main():
    assert truth(z3.Length(z3.StringVal("a\n")) > 1) is True
    assert truth(z3.InRe(z3.StringVal("a\n"), z3.Re("a"))) is False
    assert truth(z3.InRe(z3.StringVal("ab"), z3.Loop(z3.Re("ab"), 1, 2))) is True
    assert truth(z3.IntVal(5) % z3.IntVal(-3) > 1) is True          # SMT-LIB: 5 mod -3 = 2
    assert has_value(z3.IntVal(-7) / z3.IntVal(2), -4) is True
    assert has_value(z3.StrToInt(z3.StringVal("007")), 7) is True
    assert has_value(z3.StrToInt(z3.StringVal("-5")), -1) is True
    assert has_value(z3.StringVal("ab").at(z3.IntVal(5)), "") is True
    assert has_value(z3.Length(z3.StringVal("\u20ac")), 1) is True
    assert has_value(z3.Concat(z3.StringVal('a"'), z3.StringVal("\\")), 'a"\\') is True
    assert simplify_value(z3.Concat(z3.StringVal("\u20ac"), z3.StringVal("\n"))) == ("str", "\u20ac\n")
    print("selfcheck: R4 ok (Z3 oracle server)")
