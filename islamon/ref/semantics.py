"""R2: ISLa semantics transcribed from sphinx/islaspec.rst, on anything with .value/.children/.id
(or nested lists via ref.grammar.lab/kids). No ISLa evaluator/parser/predicate code is used.

Formula AST (plain tuples):
  ("forall"|"exists", nt, var, invar, mexpr|None, body)     mexpr = (text, [(mtree, P), ...]); mtree = (label, children|None)
  ("not", f) ("and", f, g, ...) ("or", f, g, ...)
  ("pred", name, [("var", v) | "literal", ...])
  ("count", var, needle, int | ("var", n))
  ("smt", sexpr_text, [vars])
  ("exists_int_count", nvar, var, needle, body)      exists int nvar: (count(var, needle, nvar) and body)
  ("int_q", "exists"|"forall", nvar, sexpr_text)     pure arithmetic over (str.to.int nvar)
"""
from islamon.ref.grammar import nodes, lab, kids, is_nt, tstr
from islamon.ref import predicates as R3
from islamon.ref import z3oracle as R4


class Abstain(Exception):
    pass


_SMT_CACHE = {}
STATS = {"empty_domain": 0}
INT_DOMAIN_ALL = False


_ESC = {'"': '"'}  # the only escape the ISLa specification defines inside string literals


def isla_to_smt2(sexpr):
    """ISLa concrete-syntax S-expression -> SMT-LIB 2.6 text: string literals re-escaped, str.to.int renamed"""
    import re

    def lit(m):
        raw = re.sub(r"\\(.)", lambda k: _ESC.get(k.group(1), "\\" + k.group(1)), m.group(1), flags=re.S)
        return R4.lit(raw)
    return re.sub(r'"((?:\\.|[^"\\])*)"', lit, sexpr, flags=re.S).replace("str.to.int", "str.to_int")


def smt_truth(sexpr, strs):
    key = (sexpr, tuple(sorted(strs.items())))
    if key not in _SMT_CACHE:
        binds = " ".join(f"({v} {R4.lit(s)})" for v, s in strs.items())
        body = isla_to_smt2(sexpr)
        term = f"(let ({binds}) {body})" if binds else body
        _SMT_CACHE[key] = R4.truth(term)
        if len(_SMT_CACHE) > 200000:
            _SMT_CACHE.clear()
    return _SMT_CACHE[key]


def match(t, mt, P):
    """the four-case definition of match(t, t', P): returns {var: node} or None"""
    label, ch = mt
    if lab(t) != label:
        return None
    tch = kids(t)
    if ch is None:  # open leaf of the match-expression tree: matches any subtree with that label
        return {v: t for v, p in P.items() if p == ()}
    nct, ncm = len(tch or ()), len(ch)
    if ncm == 0:
        # closed leaf of the match tree: a terminal, or an epsilon-expanded nonterminal (either encoding in t)
        if tch is not None and len(tch) == 0:
            return {}
        if tch is not None and len(tch) == 1 and lab(tch[0]) == "" and is_nt(label):
            return {}
        return None
    if tch is None or nct != ncm:
        # t's epsilon in fuzzer encoding vs match tree with one empty terminal child
        if ncm == 1 and ch[0] == ("", ()) and tch is not None and nct == 0 and is_nt(label):
            return {}
        return None
    res = {}
    for i in range(nct):
        Pi = {v: p[1:] for v, p in P.items() if p and p[0] == i}
        m = match(tch[i], ch[i], Pi)
        if m is None:
            return None
        res.update(m)
    return res


def path_of(root, node):
    for p, n in nodes(root):
        if n is node:
            return p
    raise KeyError("node not in tree")


def ev(f, root, env, paths):
    k = f[0]
    if k in ("forall", "exists"):
        _, nt, var, invar, mexpr, body = f
        base, bpath = env[invar], paths[invar]
        results = []
        for p, nd in nodes(base, bpath):
            if lab(nd) != nt:
                continue
            if mexpr is None:
                results.append(ev(body, root, {**env, var: nd}, {**paths, var: p}))
                continue
            ms = []
            for mt, P in mexpr[1]:
                m = match(nd, mt, P)
                if m is not None:
                    ms.append(m)
            if len({tuple(sorted((v, id(x)) for v, x in m.items())) for m in ms}) > 1:
                raise Abstain("ambiguous match")
            if ms:
                e2, p2 = {**env, var: nd}, {**paths, var: p}
                for v, x in ms[0].items():
                    e2[v] = x
                    p2[v] = path_of(root, x)
                results.append(ev(body, root, e2, p2))
        if not results:
            STATS["empty_domain"] += 1
        return all(results) if k == "forall" else any(results)
    if k == "not":
        return not ev(f[1], root, env, paths)
    if k == "and":
        return all([ev(g, root, env, paths) for g in f[1:]])
    if k == "or":
        return any([ev(g, root, env, paths) for g in f[1:]])
    if k == "pred":
        _, name, args = f
        a = [paths[x[1]] if isinstance(x, tuple) else x for x in args]
        r = R3.pred_eval(name, root, a)
        if r is None:
            raise Abstain("predicate undocumented for these arguments")
        return r
    if k == "count":
        _, var, needle, num = f
        c = sum(1 for _, nd in nodes(env[var]) if lab(nd) == needle)
        if isinstance(num, int):
            return c == num
        v = env[num[1]]
        return c == int(v if isinstance(v, str) else tstr(v))
    if k == "smt":
        _, sexpr, vars_ = f
        strs = {v: (env[v] if isinstance(env[v], str) else tstr(env[v])) for v in vars_}
        r = smt_truth(sexpr, strs)
        if r is None:
            raise Abstain("z3 undecided")
        return r
    if k == "exists_int_count":
        _, nvar, var, needle, body = f
        c = sum(1 for _, nd in nodes(env[var]) if lab(nd) == needle)
        return ev(body, root, {**env, nvar: str(c)}, paths)
    if k == "int_q":
        _, q, nvar, sexpr = f
        body = isla_to_smt2(sexpr).replace(f"(str.to_int {nvar})", "nI")
        if nvar in body.replace("nI", ""):
            raise Abstain("numeric variable used outside str.to.int")
        if INT_DOMAIN_ALL:     # emulation of ISLa's current reading (classification only): the variable ranges over all integers
            term = f"(exists ((nI Int)) {body})" if q == "exists" else f"(forall ((nI Int)) {body})"
        else:
            term = (f"(exists ((nI Int)) (and (>= nI 0) {body}))" if q == "exists" else f"(forall ((nI Int)) (=> (>= nI 0) {body}))")
        r = R4.truth(term)
        if r is None:
            raise Abstain("z3 undecided")
        return r
    raise KeyError(k)


def evaluate_ref(f, root):
    """True / False / ("ABSTAIN", reason)"""
    try:
        return ev(f, root, {"start": root}, {"start": ()})
    except Abstain as a:
        return ("ABSTAIN", str(a))


# ---------------------------------------------------------------- printers
def esc(s):
    return s.replace('"', '\\"')


def pr(f):
    """core ISLa concrete syntax"""
    k = f[0]
    if k in ("forall", "exists"):
        _, nt, var, invar, mexpr, body = f
        m = f'="{esc(mexpr[0])}"' if mexpr else ""
        return f"{k} {nt} {var}{m} in {invar}: ({pr(body)})"
    if k == "not":
        return f"not ({pr(f[1])})"
    if k in ("and", "or"):
        return "(" + f" {k} ".join(pr(g) for g in f[1:]) + ")"
    if k == "pred":
        return f"{f[1]}(" + ", ".join(a[1] if isinstance(a, tuple) else f'"{a}"' for a in f[2]) + ")"
    if k == "count":
        num = f[3]
        return f'count({f[1]}, "{f[2]}", ' + (f'"{num}"' if isinstance(num, int) else num[1]) + ")"
    if k == "smt":
        return f[1]
    if k == "exists_int_count":
        _, nvar, var, needle, body = f
        return f'exists int {nvar}: (count({var}, "{needle}", {nvar}) and {pr(body)})'
    if k == "int_q":
        return f"{f[1]} int {f[2]}: ({f[3]})"
    raise KeyError(k)


def skeleton(f):
    """shape of a formula with names and literals abstracted (for distinct-case counting)"""
    k = f[0]
    if k in ("forall", "exists"):
        return (k, f[1], bool(f[4]), skeleton(f[5]))
    if k == "not":
        return ("not", skeleton(f[1]))
    if k in ("and", "or"):
        return (k,) + tuple(skeleton(g) for g in f[1:])
    if k == "pred":
        return ("pred", f[1]) + tuple(a for a in f[2] if not isinstance(a, tuple))
    if k == "count":
        return ("count", f[2], isinstance(f[3], int))
    if k == "smt":
        import re
        return ("smt", re.sub(r'"[^"]*"|\b[a-z]+\d+\b|\d+', "_", f[1]))
    if k == "exists_int_count":
        return ("eic", f[3], skeleton(f[4]))
    if k == "int_q":
        return ("int_q", f[1])
    return (k,)


def has_numeric_quantifier(f):
    k = f[0]
    if k in ("exists_int_count", "int_q"):
        return True
    if k in ("forall", "exists"):
        return has_numeric_quantifier(f[5])
    if k == "not":
        return has_numeric_quantifier(f[1])
    if k in ("and", "or"):
        return any(has_numeric_quantifier(g) for g in f[1:])
    return False


def subformulas(f):
    yield f
    k = f[0]
    if k in ("forall", "exists"):
        yield from subformulas(f[5])
    elif k == "not":
        yield from subformulas(f[1])
    elif k in ("and", "or"):
        for g in f[1:]:
            yield from subformulas(g)
    elif k == "exists_int_count":
        yield from subformulas(f[4])
