"""R3: structural predicates on paths, from the spec table / isBefore definition. No ISLa imports."""
from islamon.ref.grammar import nodes, get, lab, kids

BINARY = ["before", "after", "inside", "direct_child", "same_position", "different_position", "consecutive"]
LEVEL_OPS = ["EQ", "GE", "LE", "GT", "LT"]


def before(p1, p2):
    if not p1 or not p2:
        return False
    if p1[0] < p2[0]:
        return True
    if p2[0] < p1[0]:
        return False
    return before(p1[1:], p2[1:])


def inside(p1, p2):
    return tuple(p1[:len(p2)]) == tuple(p2)


def pred_eval(name, root, args):
    """True/False, or None when the documentation does not fix the answer (not judged)."""
    if name == "before":
        return before(*args)
    if name == "after":  # occurs after (not below): strictly later in document order, neither below the other
        return before(args[1], args[0])
    if name == "inside":
        return inside(*args)
    if name == "direct_child":
        return len(args[0]) == len(args[1]) + 1 and inside(args[0], args[1])
    if name == "same_position":
        return tuple(args[0]) == tuple(args[1])
    if name == "different_position":
        return tuple(args[0]) != tuple(args[1])
    if name == "nth":
        n, p1, p2 = int(args[0]), tuple(args[1]), tuple(args[2])
        if not inside(p1, p2):
            return False
        label = lab(get(root, p1))
        cnt = 0
        for p, nd in nodes(get(root, p2), p2):
            if lab(nd) == label:
                cnt += 1
            if p == p1:
                return cnt == n
        return False
    if name == "consecutive":
        p1, p2 = tuple(args[0]), tuple(args[1])
        leaves = [p for p, nd in nodes(root) if not kids(nd)]
        if p1 not in leaves or p2 not in leaves:
            return None
        return leaves.index(p2) == leaves.index(p1) + 1
    if name == "level":
        op, nt, p1, p2 = args[0], args[1], tuple(args[2]), tuple(args[3])
        cands = [()]
        for i in range(min(len(p1), len(p2))):
            if p1[i] != p2[i]:
                break
            if lab(get(root, p1[:i + 1])) == nt:
                cands.append(p1[:i + 1])
        for c in cands:
            o1 = [k for k in range(len(c) + 1, len(p1)) if lab(get(root, p1[:k])) == nt]
            o2 = [k for k in range(len(c) + 1, len(p2)) if lab(get(root, p2[:k])) == nt]
            if op == "EQ" and not o1 and not o2:
                return True
            if op == "GE" and not o1:
                return True
            if op == "LE" and not o2:
                return True
            if op == "GT" and not o1 and o2:
                return True
            if op == "LT" and not o2 and o1:
                return True
        return False
    raise KeyError(name)
