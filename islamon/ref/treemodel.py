"""R6: derivation trees as nested lists [label, children|None, id] with pure functions.
No ISLa imports. `snap(dt)` reads a DerivationTree through its raw attributes only."""
import copy
from islamon.ref.grammar import is_nt


def snap(t):
    ch = t.children
    return [t.value, None if ch is None else [snap(c) for c in ch], t.id]


def walk(m, path=()):
    yield path, m
    if m[1]:
        for i, c in enumerate(m[1]):
            yield from walk(c, path + (i,))


def at(m, path):
    for i in path:
        m = m[1][i]
    return m


def valid_path(m, path):
    for i in path:
        if not m[1] or i < 0 or i >= len(m[1]):
            return False
        m = m[1][i]
    return True


def replace(m, path, sub):
    if not path:
        return copy.deepcopy(sub)
    m2 = [m[0], list(m[1]), m[2]]
    m2[1][path[0]] = replace(m[1][path[0]], path[1:], sub)
    return m2


def yield_str(m, show_open=False):
    out = []
    for _, n in walk(m):
        if n[1] is None:
            if show_open:
                out.append(n[0])
        elif len(n[1]) == 0 and not is_nt(n[0]):
            out.append(n[0])
    return "".join(out)


def is_open(m):
    return any(n[1] is None for _, n in walk(m))


def strip_ids(m):
    return [m[0], None if m[1] is None else [strip_ids(c) for c in m[1]]]


def ids(m):
    return [n[2] for _, n in walk(m)]
