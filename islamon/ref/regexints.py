"""R5: own matcher for the regex subset used by numeric_intervals_from_regex (tuple AST from gen/smtatoms),
via an independent translation to Python `re`, and the integer set of a regex by bounded enumeration."""
import re, itertools

INT = re.compile(r"[+-]?[0-9]+")


def topy(t):
    op, _, ch, par = t
    if op == "str.to_re":
        return re.escape(ch[0][3])
    if op == "re.range":
        lo, hi = ch[0][3], ch[1][3]
        return "[^\\s\\S]" if lo > hi else "[%s-%s]" % (re.escape(lo), re.escape(hi))
    if op == "re.union":
        return "(?:" + "|".join(topy(c) for c in ch) + ")"
    if op == "re.++":
        return "".join("(?:%s)" % topy(c) for c in ch)
    if op == "re.*":
        return "(?:%s)*" % topy(ch[0])
    if op == "re.+":
        return "(?:%s)+" % topy(ch[0])
    if op == "re.opt":
        return "(?:%s)?" % topy(ch[0])
    raise NotImplementedError(op)


_STRS = {}


def strings(maxlen, alpha="+-0123456789"):
    if (maxlen, alpha) not in _STRS:
        _STRS[(maxlen, alpha)] = ["".join(t) for L in range(0, maxlen + 1) for t in itertools.product(alpha, repeat=L)]
    return _STRS[(maxlen, alpha)]


def int_values(pat, maxlen=4):
    """integer values of all strings over {+,-,0-9} up to maxlen that the regex matches and that are integers"""
    return {int(s) for s in strings(maxlen) if pat.fullmatch(s) and INT.fullmatch(s)}


def representable(pat, v, maxpad=10):
    digs = str(abs(v))
    signs = (["", "+"] if v >= 0 else ["-"]) + (["-"] if v == 0 else [])
    return any(pat.fullmatch(sg + "0" * pad + digs) for sg in signs for pad in range(maxpad + 1))
