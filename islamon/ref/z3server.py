"""Stand-alone Z3 oracle server (stdlib + z3 only; run with the tooling interpreter python3-vt, Z3 5.1).
Reads one JSON request per line on stdin, answers one JSON line. Kept out of the process under test because
Z3 4.11.2 (the wheel ISLa runs on) has a use-after-free in its regex derivative rewriter that crashes simplify."""
import sys, json, re
import z3


def decode(s):
    return re.sub(r"\\u\{([0-9a-fA-F]*)\}", lambda m: chr(int(m.group(1) or "0", 16)), s)


def truth(term, timeout_ms):
    s = z3.simplify(term)
    if z3.is_true(s):
        return True
    if z3.is_false(s):
        return False
    sol = z3.Solver()
    sol.set("timeout", timeout_ms)
    sol.add(z3.Not(term))
    r = sol.check()
    return True if r == z3.unsat else False if r == z3.sat else None


def main():
    for line in sys.stdin:
        try:
            req = json.loads(line)
            if req["op"] == "truth":
                decls = {n: z3.String(n) for n in req.get("decls", [])}
                t = z3.parse_smt2_string(f"(assert {req['term']})", decls=decls)[0]
                out = {"ok": True, "value": truth(t, req.get("timeout_ms", 10000))}
            elif req["op"] == "simplify":
                t = z3.parse_smt2_string(f"(assert (= {req['term']} {req['term']}))")[0].arg(0)
                s = z3.simplify(t)
                if z3.is_int_value(s):
                    out = {"ok": True, "kind": "int", "value": s.as_long()}
                elif z3.is_true(s) or z3.is_false(s):
                    out = {"ok": True, "kind": "bool", "value": z3.is_true(s)}
                elif z3.is_string_value(s):
                    out = {"ok": True, "kind": "str", "value": decode(s.as_string())}
                else:
                    out = {"ok": True, "kind": "other", "value": None}
            else:
                out = {"ok": False, "error": "bad op"}
        except Exception as e:
            out = {"ok": False, "error": repr(e)[:200]}
        sys.stdout.write(json.dumps(out) + "\n")
        sys.stdout.flush()


if __name__ == "__main__":
    main()
