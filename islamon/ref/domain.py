"""R7: independent domain validators for the shipped formalizations. Work on the string (and, for reST, on the labels
of the derivation tree read through ref.grammar.nodes/lab/kids). No ISLa code."""
import csv, io, re
from xml.etree import ElementTree as ET
from islamon.ref.grammar import nodes, lab, kids, tstr


def check_csv(s):
    """None or reason: all rows have the same number of columns (';' delimiter, '\"' quoting), >= 1 column"""
    if not s.endswith("\n"):
        return "last record is not newline-terminated"
    rows = list(csv.reader(io.StringIO(s, newline=""), delimiter=";", quotechar='"', strict=True))
    if not rows:
        return "no rows"
    widths = {len(r) for r in rows}
    if len(widths) != 1:
        return f"rows have different numbers of columns: {sorted(widths)}"
    return None


def check_xml(s):
    try:
        ET.fromstring(s)   # expat: well-formedness, unbound prefixes, duplicate attributes
        return None
    except ET.ParseError as e:
        return f"not well-formed: {e}"


def check_tar(s, strict_links=False):
    """simple TAR: entries = file_name[100] checksum[8] typeflag[1] linked_file_name[100] 'CONTENT'"""
    b = s
    pos, names, links = 0, [], []
    E = 100 + 8 + 1 + 100 + len("CONTENT")
    if len(b) == 0 or len(b) % E != 0:
        return f"length {len(b)} is not a multiple of the entry size {E}"
    while pos < len(b):
        e = b[pos:pos + E]
        fn, ck, tf, ln, content = e[:100], e[100:108], e[108], e[109:209], e[209:]
        if content != "CONTENT":
            return "content field damaged"
        for name, field in (("file_name", fn), ("linked_file_name", ln)):
            body = field.rstrip("\x00")
            if "\x00" in body:
                return f"{name}: NUL inside the name"
        if not fn.rstrip("\x00"):
            return "empty file name"
        if not re.fullmatch(r"[0-7]{6}\x00 ", ck):
            return f"checksum field {ck!r} is not 6 octal digits + NUL + SPACE"
        header = fn + " " * 8 + tf + ln
        want = oct(sum(header.encode("latin-1")))[2:].rjust(6, "0")
        if ck[:6] != want:
            return f"checksum {ck[:6]} != {want}"
        if tf not in "02":
            return f"typeflag {tf!r}"
        names.append(fn.rstrip("\x00"))
        if tf == "2":
            links.append((len(names) - 1, ln.rstrip("\x00")))
        pos += E
    # (the shipped link constraint admits a type-2 entry with an all-NUL link name; the property speaks of checksums and
    #  field encodings only, so dangling symbolic links are reported to the caller but not judged)
    dangling = [t for idx, t in links if not any(n == t for j, n in enumerate(names) if j != idx)]
    return None if not strict_links or not dangling else f"symbolic link to {dangling[0]!r}, which is no other entry's file name"


def check_rest_rules(tree):
    """text-level rules of the shipped reST constraints, read off the derivation tree's labels"""
    labels, refs = [], []
    for p, n in nodes(tree):
        l = lab(n)
        if l == "<section-title>":
            ch = kids(n)
            title, underline = tstr(ch[0]), tstr(ch[2])
            if len(underline) < len(title) or len(title) == 0:
                return f"underline {underline!r} shorter than title {title!r}"
        elif l == "<label>":
            labels.append(tstr(kids(n)[1]))
        elif l in ("<internal_reference>", "<internal_reference_nospace>"):
            refs.append(tstr([c for c in kids(n) if lab(c) == "<id>"][0]))
        elif l == "<enumeration>":
            nums = [int(tstr(kids(x)[0])) for _, x in nodes(n) if lab(x) == "<enumeration_item>"]
            for a, b in zip(nums, nums[1:]):
                if b != a + 1 or a <= 0:
                    return f"enumeration numbering {nums} is not consecutive from a positive number"
    if len(set(labels)) != len(labels):
        return f"link target defined twice: {labels}"
    for r in refs:
        if r not in labels:
            return f"reference {r}_ has no link target"
    return None


def check_rest_docutils(s):
    """docutils renders without system messages of level ERROR(3)/SEVERE(4); returns (reason|None, max_level)"""
    import docutils.core, docutils.utils
    stream = io.StringIO()
    try:
        doc = docutils.core.publish_doctree(s, settings_overrides={"report_level": 1, "halt_level": 5, "warning_stream": stream})
    except Exception as e:
        return f"docutils raised {type(e).__name__}: {e}", 4
    levels = [int(x) for x in re.findall(r"\((?:DEBUG|INFO|WARNING|ERROR|SEVERE)/(\d)\)", stream.getvalue())]
    levels += [m["level"] for m in doc.findall() if m.tagname == "system_message"]
    mx = max(levels, default=0)
    if mx >= 3:
        return "docutils reports ERROR/SEVERE: " + stream.getvalue()[:200], mx
    return None, mx
