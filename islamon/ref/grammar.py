"""R1: independent grammar model. No ISLa imports.

Trees are anything with .value/.children (ISLa DerivationTree) or nested
(label, children|None) tuples/lists; everything goes through lab()/kids().
"""
import re
import itertools

NT_RE = re.compile(r"(<[^<> ]*>)")


def split_alt(a):
    return tuple(t for t in NT_RE.split(a) if t)


def is_nt(s):
    return bool(NT_RE.fullmatch(s))


def canon(g):
    return {k: [split_alt(a) for a in v] for k, v in g.items()}


def lab(t):
    return t.value if hasattr(t, "value") else t[0]


def kids(t):
    return t.children if hasattr(t, "children") else t[1]


def nodes(t, path=()):
    """pre-order (path, node) -- own walk, no ISLa method used"""
    stack = [(path, t)]
    while stack:
        p, n = stack.pop()
        yield p, n
        ch = kids(n)
        if ch:
            for i in range(len(ch) - 1, -1, -1):
                stack.append((p + (i,), ch[i]))


def get(t, path):
    for i in path:
        t = kids(t)[i]
    return t


def tstr(t):
    """yield of a tree: concatenation of terminal leaves; open leaves contribute ''."""
    out = []
    for _, n in nodes(t):
        ch = kids(n)
        if ch is not None and len(ch) == 0 and not is_nt(lab(n)):
            out.append(lab(n))
    return "".join(out)


def is_open(t):
    return any(kids(n) is None for _, n in nodes(t))


def to_plain(t, with_id=False):
    ch = kids(t)
    if with_id:
        return (lab(t), None if ch is None else tuple(to_plain(c, True) for c in ch), getattr(t, "id", None))
    return (lab(t), None if ch is None else tuple(to_plain(c) for c in ch))


def to_list(t):
    """JSON-able nested list [label, children|None, id]"""
    ch = kids(t)
    return [lab(t), None if ch is None else [to_list(c) for c in ch], getattr(t, "id", None)]


class G:
    def __init__(self, grammar):
        self.g = {k: list(v) for k, v in grammar.items()}
        self.cg = canon(self.g)
        self.nts = list(self.cg)
        self._nullable = None
        self._reach = None
        self._minlen = None

    # ---- static analyses -------------------------------------------------
    def nullable(self):
        if self._nullable is None:
            nl = set()
            changed = True
            while changed:
                changed = False
                for a, alts in self.cg.items():
                    if a in nl:
                        continue
                    for alt in alts:
                        if all((s in nl) if is_nt(s) else s == "" for s in alt):
                            nl.add(a)
                            changed = True
                            break
            self._nullable = nl
        return self._nullable

    def reach(self):
        """reach[A] = set of nonterminals derivable from A in >= 1 step"""
        if self._reach is None:
            direct = {a: {s for alt in alts for s in alt if is_nt(s)} for a, alts in self.cg.items()}
            r = {a: set(d) for a, d in direct.items()}
            changed = True
            while changed:
                changed = False
                for a in r:
                    new = set()
                    for b in r[a]:
                        new |= r.get(b, set())
                    if not new <= r[a]:
                        r[a] |= new
                        changed = True
            self._reach = r
        return self._reach

    def well_formed(self):
        """all used nonterminals defined, all reachable from <start>, all productive"""
        if "<start>" not in self.cg:
            return False
        for alts in self.cg.values():
            if not alts:
                return False
            for alt in alts:
                for s in alt:
                    if is_nt(s) and s not in self.cg:
                        return False
        if set(self.cg) - {"<start>"} - self.reach()["<start>"]:
            return False
        return all(m is not None for m in self.minlen().values())

    def minlen(self):
        if self._minlen is None:
            ml = {a: None for a in self.cg}
            changed = True
            while changed:
                changed = False
                for a, alts in self.cg.items():
                    for alt in alts:
                        tot = 0
                        for s in alt:
                            if is_nt(s):
                                if ml.get(s) is None:
                                    tot = None
                                    break
                                tot += ml[s]
                            else:
                                tot += len(s)
                        if tot is not None and (ml[a] is None or tot < ml[a]):
                            ml[a] = tot
                            changed = True
            self._minlen = ml
        return self._minlen

    def derives_self(self):
        """some A =>+ A (cyclic unit/nullable derivation): infinitely ambiguous"""
        nl = self.nullable()
        unit = {a: set() for a in self.cg}
        for a, alts in self.cg.items():
            for alt in alts:
                for i, s in enumerate(alt):
                    if not is_nt(s):
                        continue
                    rest = alt[:i] + alt[i + 1:]
                    if all((x in nl) if is_nt(x) else x == "" for x in rest):
                        unit[a].add(s)
        for a in self.cg:
            seen, st = set(), list(unit[a])
            while st:
                x = st.pop()
                if x == a:
                    return True
                if x not in seen:
                    seen.add(x)
                    st.extend(unit.get(x, ()))
        return False

    # ---- tree validity ---------------------------------------------------
    def valid_tree(self, t, root=None, allow_open=True):
        """None if valid, else a reason string."""
        if root is not None and lab(t) != root:
            return f"root label {lab(t)!r} != {root!r}"
        for p, n in nodes(t):
            l, ch = lab(n), kids(n)
            if not is_nt(l):
                if ch is None or len(ch) != 0:
                    return f"terminal {l!r} at {p} has children {None if ch is None else len(ch)}"
                continue
            if l not in self.cg:
                return f"unknown nonterminal {l} at {p}"
            if ch is None:
                if not allow_open:
                    return f"open leaf {l} at {p}"
                continue
            labels = tuple(lab(c) for c in ch)
            ok = False
            for alt in self.cg[l]:
                if labels == alt:
                    ok = True
                    break
                if len(alt) == 0 and labels == ("",):
                    ok = True
                    break
            if not ok:
                return f"children {labels!r} of {l} at {p} match no alternative"
        return None

    # ---- membership (bottom-up span chart, fixpoint per span) -------------
    def member(self, s, start="<start>"):
        return start in self._chart(s).get((0, len(s)), ())

    def _chart(self, s):
        n = len(s)
        nl = frozenset(self.nullable())
        T = {}
        for i in range(n + 1):
            T[(i, i)] = nl
        for length in range(1, n + 1):
            for i in range(0, n - length + 1):
                j = i + length
                cur = set()
                T[(i, j)] = cur
                changed = True
                while changed:
                    changed = False
                    for a, alts in self.cg.items():
                        if a in cur:
                            continue
                        for alt in alts:
                            if self._alt_matches(alt, s, i, j, T):
                                cur.add(a)
                                changed = True
                                break
        return T

    @staticmethod
    def _alt_matches(alt, s, i, j, T):
        pos = {i}
        for sym in alt:
            new = set()
            if is_nt(sym):
                for k in pos:
                    for l in range(k, j + 1):
                        if sym in T.get((k, l), ()):
                            new.add(l)
            else:
                L = len(sym)
                for k in pos:
                    if k + L <= j and s.startswith(sym, k):
                        new.add(k + L)
            pos = new
            if not pos:
                return False
        return j in pos

    # ---- brute-force bounded language (for self-check and C11) ----------
    def language(self, start="<start>", maxlen=6, cap=20000):
        """all words of length <= maxlen derivable from start (leftmost BFS over
        sentential forms, pruned by minimal length). Returns (set, complete?)"""
        ml = self.minlen()
        words, seen = set(), set()
        todo = [(start,)]
        complete = True
        while todo:
            form = todo.pop()
            if form in seen:
                continue
            seen.add(form)
            if len(seen) > cap:
                complete = False
                break
            idx = next((k for k, x in enumerate(form) if is_nt(x)), None)
            if idx is None:
                w = "".join(form)
                if len(w) <= maxlen:
                    words.add(w)
                continue
            for alt in self.cg[form[idx]]:
                nf = form[:idx] + alt + form[idx + 1:]
                lo = sum((ml[x] if is_nt(x) else len(x)) for x in nf)
                if lo <= maxlen and len(nf) <= 3 * maxlen + 6:
                    todo.append(nf)
        return words, complete

    def count_derivations(self, s, start="<start>", cap=2):
        """number of distinct derivation trees of s from start, capped (ambiguity test).
        Memoised on (sym, i, j); cyclic grammars must be excluded by the caller."""
        T = self._chart(s)
        memo = {}

        def cnt_sym(sym, i, j):
            if not is_nt(sym):
                return 1 if s[i:j] == sym else 0
            if sym not in T.get((i, j), ()):
                return 0
            key = (sym, i, j)
            if key in memo:
                return memo[key] if memo[key] is not None else 0
            memo[key] = None
            tot = 0
            for alt in self.cg[sym]:
                tot += cnt_seq(alt, i, j)
                if tot >= cap:
                    break
            memo[key] = min(tot, cap)
            return memo[key]

        def cnt_seq(alt, i, j):
            if not alt:
                return 1 if i == j else 0
            if len(alt) == 1:
                return cnt_sym(alt[0], i, j)
            tot = 0
            for k in range(i, j + 1):
                a = cnt_sym(alt[0], i, k)
                if a:
                    tot += a * cnt_seq(alt[1:], k, j)
                    if tot >= cap:
                        return cap
            return tot

        return cnt_sym(start, 0, len(s))

    # ---- random derivations ---------------------------------------------
    def _cost(self):
        """minimal derivation-tree node count per nonterminal (to close trees)."""
        c = getattr(self, "_costc", None)
        if c is None:
            c = {a: None for a in self.cg}
            changed = True
            while changed:
                changed = False
                for a, alts in self.cg.items():
                    for alt in alts:
                        tot = 1
                        for s in alt:
                            if is_nt(s):
                                if c.get(s) is None:
                                    tot = None
                                    break
                                tot += c[s]
                            else:
                                tot += 1
                        if tot is not None and (c[a] is None or tot < c[a]):
                            c[a] = tot
                            changed = True
            self._costc = c
        return c

    def alt_cost(self, alt):
        c = self._cost()
        return 1 + sum(c[s] if is_nt(s) else 1 for s in alt)

    def random_tree(self, rng, start="<start>", budget=20, eps_style=None):
        """closed random derivation as nested list [label, children]; eps_style in
        {None(random), 'empty', 'fuzzer'} picks the encoding of empty expansions."""
        def build(sym, b):
            if not is_nt(sym):
                return [sym, []]
            alts = self.cg[sym]
            if b <= 0:
                m = min(self.alt_cost(a) for a in alts)
                alts = [a for a in alts if self.alt_cost(a) == m]
            alt = rng.choice(alts)
            if not alt:
                st = eps_style or rng.choice(("empty", "fuzzer"))
                return [sym, [] if st == "empty" else [["", []]]]
            share = (b - 1) // max(1, len(alt))
            return [sym, [build(x, share) for x in alt]]
        return build(start, budget)
