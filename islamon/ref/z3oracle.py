"""R4: truth of a ground Boolean SMT term straight from Z3 (validity: unsat of the negation). No ISLa code.

The deciding Z3 runs in a separate server process (islamon/ref/z3server.py under python3-vt, Z3 5.1): the
Z3 4.11.2 wheel that ISLa itself uses segfaults in simplify on some regex terms, and the oracle must not
take the process under test down with it. Terms travel as SMT-LIB text (z3 `sexpr()`)."""
import os, json, subprocess, atexit

_SERVER = None
_PY = os.environ.get("ISLAMON_Z3_PY", "python3-vt")
STATS = {"requests": 0, "restarts": 0, "errors": 0}


def _server():
    global _SERVER
    if _SERVER is None or _SERVER.poll() is not None:
        if _SERVER is not None:
            STATS["restarts"] += 1
        env = {k: v for k, v in os.environ.items() if k not in ("PYTHONPATH", "PYTHONHASHSEED")}
        _SERVER = subprocess.Popen([_PY, os.path.join(os.path.dirname(os.path.abspath(__file__)), "z3server.py")],
                                   stdin=subprocess.PIPE, stdout=subprocess.PIPE, stderr=subprocess.DEVNULL, env=env,
                                   text=True, bufsize=1)
    return _SERVER


@atexit.register
def _stop():
    if _SERVER is not None and _SERVER.poll() is None:
        try:
            _SERVER.stdin.close()
            _SERVER.wait(timeout=2)
        except Exception:
            _SERVER.kill()


def _ask(req):
    STATS["requests"] += 1
    for _ in range(2):
        try:
            s = _server()
            s.stdin.write(json.dumps(req) + "\n")
            s.stdin.flush()
            line = s.stdout.readline()
            if not line:
                raise IOError("server died")
            r = json.loads(line)
            if not r.get("ok"):
                STATS["errors"] += 1
                return None
            return r
        except Exception:
            try:
                _SERVER.kill()
            except Exception:
                pass
            STATS["errors"] += 1
            return None
    return None


def sexpr(term):
    return term if isinstance(term, str) else term.sexpr().replace("\n", " ")


def truth(term, timeout_ms=10000, decls=()):
    """True / False / None (Z3 undecided or oracle failure). term: z3 expr or SMT-LIB text; decls: names of free String
    constants (the term is then judged for validity over all their values)"""
    r = _ask({"op": "truth", "term": sexpr(term), "timeout_ms": timeout_ms, "decls": list(decls)})
    return None if r is None else r["value"]


def simplify_value(term):
    """('int'|'bool'|'str'|'other', python value) or None"""
    r = _ask({"op": "simplify", "term": sexpr(term)})
    return None if r is None else (r["kind"], r["value"])


def lit(pyval):
    if isinstance(pyval, bool):
        return "true" if pyval else "false"
    if isinstance(pyval, int):
        return str(pyval) if pyval >= 0 else f"(- {-pyval})"
    if isinstance(pyval, str):
        out = []
        for c in pyval:
            if c == '"':
                out.append('""')
            elif 32 <= ord(c) < 127 and c != "\\":
                out.append(c)
            else:
                out.append("\\u{%x}" % ord(c))
        return '"' + "".join(out) + '"'
    return None


def has_value(term, pyval):
    """does Z3 agree that ground `term` equals python value `pyval`? True/False/None"""
    l = lit(pyval)
    if l is None:
        return False
    return truth(f"(= {sexpr(term)} {l})", 5000)
