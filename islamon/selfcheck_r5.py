import re, random, z3
from islamon.ref import regexints as R5
from islamon.gen import smtatoms as SA


def main():
    rng = random.Random(5)
    n = 0
    for _ in range(60):
        t = SA.Gen(rng, plain=True).R(2)
        try:
            pat = re.compile(R5.topy(t))
        except NotImplementedError:
            continue
        for s in ["", "a", "ab", "0", "12", "abab", "c", "aa", "7"]:
            z = z3.simplify(z3.InRe(z3.StringVal(s), SA.to_z3(t)))
            if z3.is_true(z) or z3.is_false(z):
                assert z3.is_true(z) == bool(pat.fullmatch(s)), (t, s)
                n += 1
    assert R5.int_values(re.compile(R5.topy(("re.range", "R", [("sconst", "S", [], "2"), ("sconst", "S", [], "4")], None)))) == {2, 3, 4}
    print(f"selfcheck: R5 ok ({n} matcher/Z3 comparisons)")
