"""Applies each seeded change to /repo, runs the check of the property it breaks (quick tier, no evidence written), undoes
the change, and records the outcome in seeded/<name>/meta.json: python3 tools/run_seeded.py [name ...]"""
import sys, os, json, subprocess, glob, re
ROOT = os.path.dirname(os.path.dirname(os.path.abspath(__file__)))
names = sys.argv[1:] or sorted(os.path.basename(d) for d in glob.glob(os.path.join(ROOT, "seeded", "*")))
for name in names:
    d = os.path.join(ROOT, "seeded", name)
    meta = json.load(open(os.path.join(d, "meta.json")))
    pid = meta["breaks_property"]
    # the checks named as catching it ("Cnn quick: ..."); the property's own check first
    pids = [pid] + [c for c in dict.fromkeys(re.findall(r"^(C\d\d)[ :]", "\n".join(meta.get("caught_by", [])), re.M)) if c != pid]
    runs = []
    assert subprocess.run(["git", "-C", "/repo", "status", "--porcelain", "--untracked-files=no"], capture_output=True, text=True).stdout.strip() == "", "/repo not clean"
    subprocess.run(["git", "-C", "/repo", "apply", os.path.join(d, "patch.diff")], check=True)
    try:
        for c in pids:
            p = subprocess.run([os.path.join(ROOT, "check"), c, "--tier", "quick", "--no-evidence"], capture_output=True, text=True, cwd=ROOT)
            lines = [l for l in p.stdout.splitlines() if "VIOLATION" in l or l.strip().startswith("key=") or " rc=" in l]
            new = re.search(r" new=(\d+)", p.stdout)
            runs.append({"check": f"./check {c} --tier quick", "exit": p.returncode, "new_violations": int(new.group(1)) if new else None,
                         "keys": sorted({re.search(r"key=(\S+)", l).group(1) for l in lines if "key=" in l})[:8]})
    finally:
        subprocess.run(["git", "-C", "/repo", "checkout", "--", "."], check=True)
    meta["applied_to_repo_run"] = runs[0] if len(runs) == 1 else runs
    json.dump(meta, open(os.path.join(d, "meta.json"), "w"), indent=1)
    print(name, [(r["check"].split()[1], "exit", r["exit"], "new", r["new_violations"]) for r in runs])
