"""Applies each seeded change to /repo, runs the check of the property it breaks (quick tier, no evidence written), undoes
the change, and records the outcome in seeded/<name>/meta.json: python3 tools/run_seeded.py [name ...]"""
import sys, os, json, subprocess, glob, re
ROOT = os.path.dirname(os.path.dirname(os.path.abspath(__file__)))
names = sys.argv[1:] or sorted(os.path.basename(d) for d in glob.glob(os.path.join(ROOT, "seeded", "*")))
for name in names:
    d = os.path.join(ROOT, "seeded", name)
    meta = json.load(open(os.path.join(d, "meta.json")))
    pid = meta["breaks_property"]
    assert subprocess.run(["git", "-C", "/repo", "status", "--porcelain", "--untracked-files=no"], capture_output=True, text=True).stdout.strip() == "", "/repo not clean"
    subprocess.run(["git", "-C", "/repo", "apply", os.path.join(d, "patch.diff")], check=True)
    try:
        p = subprocess.run([os.path.join(ROOT, "check"), pid, "--tier", "quick", "--no-evidence"], capture_output=True, text=True, cwd=ROOT)
    finally:
        subprocess.run(["git", "-C", "/repo", "checkout", "--", "."], check=True)
    lines = [l for l in p.stdout.splitlines() if "VIOLATION" in l or l.strip().startswith("key=") or " rc=" in l]
    new = re.search(r" new=(\d+)", p.stdout)
    meta["applied_to_repo_run"] = {"check": f"./check {pid} --tier quick", "exit": p.returncode, "new_violations": int(new.group(1)) if new else None,
                                    "keys": sorted({re.search(r"key=(\S+)", l).group(1) for l in lines if "key=" in l})[:8]}
    json.dump(meta, open(os.path.join(d, "meta.json"), "w"), indent=1)
    print(name, "exit", p.returncode, "new", meta["applied_to_repo_run"]["new_violations"], meta["applied_to_repo_run"]["keys"][:3])
