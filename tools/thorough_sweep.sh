#!/bin/sh
# thorough tier on the unchanged tree, fewer shards so that foreground work keeps some cores
for c in "$@"; do
  ./check $c --tier thorough --shards 6 --no-evidence 2>&1 | grep -v -i "warn\|pkg_res" | grep "VIOL\|key=\|rc=\|INCONCL\|dead" | grep -v "^KNOWN" | cut -c1-300
done
