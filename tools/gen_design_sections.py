"""Regenerates DESIGN.md sections 9 (results: fixes + known findings, from known_findings.json) and 10 (seeded changes, from
seeded/*/meta.json): python3 tools/gen_design_sections.py"""
import json, collections, glob, os, re
ROOT = os.path.dirname(os.path.dirname(os.path.abspath(__file__)))
k = json.load(open(os.path.join(ROOT, "known_findings.json")))
out = ["## 9. Results on the unchanged tree: repairs and known findings\n",
       "Everything in this section was established by the checks themselves (witnesses are in `known_findings.json`). §5 lists what the\n"
       "design round *expected*; where the two differ, this section is right.\n",
       "### 9.1 Genuine defects repaired in the repository\n",
       "One `fix:` commit each, followed by the full pinned baseline with the guard off; every one of the 354 stable tests passes after\n"
       "every commit (355 passed, 21 failed as in the pinned baseline).\n",
       "| Commit | Subject | Keys that disappear (a key that reappears is reported as a new VIOLATION) |", "|---|---|---|"]
bycommit = collections.OrderedDict()
for e in k["fixed"]:
    bycommit.setdefault((e["commit"], e["commit_subject"]), []).append(e)
for (c, s), es in bycommit.items():
    out.append(f"| `{c}` | {s} | " + ", ".join(f"`{e['key']}`" for e in es) + " |")
out += ["", "Two candidate repairs were *not* committed: the `returns` API drift (`safe(fn, exceptions=…)`, `Maybe.nothing()`; repairing it makes\n"
        "crashing baseline tests run on, which shifts the PRNG state seen by the seed-sensitive stable test\n"
        "`test_solve_complex_numeric_formula_heartbeat`) and `octal_to_decimal` (the one-line repair was committed twice on a scratch branch;\n"
        "both full baseline runs lost that same stable test, so it was reverted). A first version of the pickling repair (rewriting `\\\\\"` to\n"
        "`\"\"` in `__setstate__`) was dropped again by rebase after the C17 check showed that it broke literals ending in a backslash; the\n"
        "committed repair prints through Z3's own `sexpr()`, which also removed the non-ASCII corruption. The open-tree defect in the SMT\n"
        "fallback was invisible until the arity crash in front of it had been repaired (\"seeing behind a known crash\", §3.5).\n",
        "### 9.2 Known findings (genuine, recorded instead of repaired)\n",
        "Each item is one key of `known_findings.json`; a check prints `KNOWN-FINDING: property=<id> <key> …` when it sees it and exits 0.\n"
        "Keys name a mechanism (culprit operator + trigger, raising function, emulated behaviour), never a seed or a hash.\n"]
byprop = collections.OrderedDict()
for e in k["known"]:
    byprop.setdefault(e["property"], []).append(e)
for p in sorted(byprop):
    out.append(f"**{p}**\n")
    for e in byprop[p]:
        w = e["what"]
        out.append(f"* `{e['key']}` — {w[:330]}{'…' if len(w) > 330 else ''} *Not repaired:* {e['why_not_fixed'][:220]}")
    out.append("")
metas = [json.load(open(os.path.join(d, "meta.json"))) for d in sorted(glob.glob(os.path.join(ROOT, "seeded", "*"))) if os.path.exists(os.path.join(d, "meta.json"))]
strengthened = lambda m: any(("only after" in c or "missed before" in c) for c in m.get("caught_by", []))
n_not_own = sum(1 for m in metas if any("NOT caught" in c for c in m.get("caught_by", [])))
n_after = sum(1 for m in metas if strengthened(m))
n_as_stood = len(metas) - n_after - sum(1 for m in metas if not strengthened(m) and any("NOT caught" in c for c in m.get("caught_by", [])))
SUMMARY = (f"Of the {len(metas)} stored changes, {n_as_stood} were caught by the checks as they stood, {n_after} only after a check had been "
           f"strengthened; {n_not_own} of them is caught by the check of a neighbouring property but not by the check of the property it was "
           f"written for (see its row).\n")
out += ["## 10. Seeded changes and which checks catch them\n",
        "Each change was written by an independent sub-agent that saw only the property text and a scratch worktree, then confirmed by me\n"
        "(demo fails with / passes without the patch; the full test suite keeps every stable test passing) and kept under\n"
        "`/verif/seeded/<name>/` (`patch.diff`, `demo.py`, `meta.json`). \"Caught\" means: with the patch applied the named check exits 1 with\n"
        "VIOLATION lines that are not attributed to a known finding.\n",
        "Three rounds were run: one change per property, a second one per property with the first one named as \"already studied\", and a\n"
        "third one for the properties whose checks had missed a change before. A change that a check missed led to a wider generator or\n"
        "a stronger oracle (never to a special case for the change); the \"Caught by\" column says which, and that the change was missed\n"
        "before. `python3 tools/run_seeded.py` re-applies every stored patch to `/repo`, runs the named checks and undoes it; the last\n"
        "outcome is in each `meta.json` (`applied_to_repo_run`).\n",
        SUMMARY,
        "| Seeded change | Breaks | What it needs to manifest | Caught by |", "|---|---|---|---|"]
for d in sorted(glob.glob(os.path.join(ROOT, "seeded", "*"))):
    mp = os.path.join(d, "meta.json")
    if not os.path.exists(mp):
        continue
    m = json.load(open(mp))
    needs = re.sub(r"\s+", " ", str(m.get("needs", "")))[:300]
    out.append(f"| `{os.path.basename(d)}` | {m.get('breaks_property')} | {needs}{'…' if len(str(m.get('needs', ''))) > 300 else ''} | " + "; ".join(m.get("caught_by", [])) + " |")
out.append("")
text = "\n".join(out)
p = os.path.join(ROOT, "DESIGN.md")
s = open(p).read()
i = s.find("## 9. Results on the unchanged tree")
if i >= 0:
    s = s[:i].rstrip() + "\n\n"
else:
    s = s.rstrip() + "\n\n---------------------------------------------------------------------------\n\n"
open(p, "w").write(s + text)
print("DESIGN.md sections 9-10 regenerated:", len(text), "chars")
