#!/bin/sh
# setup_cmd: offline; nothing to install. Verifies the interpreter, byte-compiles islamon and
# runs the oracle self-checks (reference models against brute force) so a broken oracle fails setup.
cd "$(dirname "$0")" || exit 3
set -e
test -x /venv/bin/python
/venv/bin/python -m compileall -q islamon >/dev/null
PYTHONPATH=/repo/src:/verif PYTHONWARNINGS=ignore /venv/bin/python -m islamon.selfcheck
mkdir -p evidence replay
echo "setup ok"
